#!/bin/bash
# dev helper: replay a case file through a test:  ./replay.sh TestC01 file.json
cd /verif; python3 tools/vbuild.py ${BIN:-plain.test} >/dev/null || exit 2
VERIF_REPLAY=$(realpath $2) ./build/${BIN:-plain.test} -test.run "^$1\$" -test.timeout 120s 2>&1 | tail -${TAIL:-8}

//go:build verif

package main

import (
	"encoding/json"
	"fmt"
	"io"
	"os"
	"testing"

	log "go.arcalot.io/log/v2"
	"go.flow.arcalot.io/engine"
	"go.flow.arcalot.io/engine/internal/verif/props"
	"go.flow.arcalot.io/engine/internal/verif/vrun"
)

// TestWorker is the worker entry point of the binary built from package main: it serves the
// "exitcode" request by calling the command's own runWorkflow function (C20).
func TestWorker(t *testing.T) {
	if os.Getenv("VERIF_WORKER") != "1" {
		t.Skip("worker entry point")
	}
	props.RegisterHandler("exitcode", func(b json.RawMessage) (any, error) {
		var req vrun.EngineRequest
		if err := json.Unmarshal(b, &req); err != nil {
			return nil, err
		}
		ans := &props.ExitCodeAnswer{}
		setup, parseErr, herr := vrun.SetupEngine(&req)
		if herr != "" {
			ans.HarnessErr = herr
			return ans, nil
		}
		defer setup.Cleanup()
		if parseErr != "" {
			ans.ExitCode = ExitCodeInvalidData // main() exits with this code when the context cannot be loaded
			return ans, nil
		}
		flow, err := engine.New(setup.Config)
		if err != nil {
			ans.HarnessErr = err.Error()
			return ans, nil
		}
		// capture what runWorkflow prints
		old := os.Stdout
		r, w, _ := os.Pipe()
		os.Stdout = w
		done := make(chan string, 1)
		go func() { data, _ := io.ReadAll(r); done <- string(data) }()
		func() {
			defer func() {
				if rec := recover(); rec != nil {
					ans.Panic = fmt.Sprint(rec)
				}
			}()
			ans.ExitCode = runWorkflow(flow, setup.FileCtx, setup.Key, log.NewLogger(log.LevelError, log.NewNOOPLogger()), setup.Input, false)
		}()
		w.Close()
		os.Stdout = old
		ans.Stdout = <-done
		return ans, nil
	})
	props.WorkerMain()
}

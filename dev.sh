#!/bin/bash
# dev helper: build plain binary and run one test with N checks; show the failing case
cd /verif
python3 tools/vbuild.py ${BIN:-plain.test} >/dev/null || exit 2
rm -f build/fail.json
VERIF_FAIL_OUT=/verif/build/fail.json ./build/${BIN:-plain.test} -test.run "^$1\$" -rapid.checks=${2:-100} -rapid.nofailfile -rapid.shrinktime=${SHRINK:-10s} ${SEED:+-rapid.seed=$SEED} -test.timeout ${TIMEOUT:-300s} 2>&1 | grep -v "\[rapid\] draw" | tail -${TAIL:-12}
if [ -f build/fail.json ]; then VERIF_SHOW=/verif/build/fail.json ./build/${BIN:-plain.test} -test.run '^TestShow$' 2>&1 | head -${SHOWN:-150}; fi

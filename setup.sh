#!/bin/bash
# Builds the harness binaries once (offline) so that the first check does not pay the cold build.
cd "$(dirname "$0")"
export GOFLAGS=-mod=mod GOPROXY=off GOSUMDB=off GOTOOLCHAIN=local
python3 tools/vbuild.py plain.test >/dev/null || exit 1
python3 tools/vbuild.py sched.test >/dev/null || exit 1
python3 tools/vbuild.py sched-race.test >/dev/null || exit 1
python3 tools/vbuild.py main.test >/dev/null || exit 1
echo "setup ok"

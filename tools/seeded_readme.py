#!/usr/bin/env python3
"""Regenerates seeded/README.md from the meta.json files."""
import json, glob, os
V = os.path.dirname(os.path.dirname(os.path.abspath(__file__)))
rows = [json.load(open(d + 'meta.json')) for d in sorted(glob.glob(V + '/seeded/M*/'))]
first = {}
for m in rows:
    r = m.get('round', 1)
    first.setdefault(r, [0, 0])
    first[r][1] += 1
    if not m['missed_before_strengthening'] or m.get('caught_at_first_contact_by_another_check_or_replay'):
        first[r][0] += 1
out = ["# Seeded changes (sensitivity of the checks)", "",
"Each directory holds one change to arcalot/arcaflow-engine that breaks a listed property while the tree still",
"compiles and the pinned suite (534 tests) passes. They were written by fresh sub-agents that were given only the",
"text of one property and a scratch git worktree (nothing from /verif; from round 2 on also one line per earlier",
"idea to avoid; in round 3 the instruction that the breakage must be of the concurrency / ordering / fault-timing",
"kind), and each was confirmed here in a scratch worktree of /repo's HEAD with `tools/verify_mutant.sh` (patch",
"applies, tree builds, the author's demonstration fails with the patch and passes without it, suite unchanged).",
"None is ever committed to /repo.", "",
"Run the checks against one:",
"* `tools/mutcheck_iso.sh seeded/<dir>/patch.diff <ID>...` - isolated: scratch worktree of /repo's HEAD with the patch,",
"  scratch copy of /verif, `VERIF_REPO` pointing at the worktree; /repo and /verif/build are not touched;",
"* `tools/mutcheck.sh seeded/<dir>/patch.diff <ID>...` - in place: `git -C /repo apply`, `./check <ID>`,",
"  `git -C /repo checkout -- .` (never while another check is running: both rebuild the harness from /repo).",
"`SEEDS=\"1 2 3\"` and `TIER=thorough` are honoured by both.", "",
"| change | round | written for | what it does | caught by (quick tier) | first missed by | strengthening that followed |",
"|---|---|---|---|---|---|---|"]
for m in rows:
    out.append("| %s | %s | %s | %s | %s | %s | %s |" % (m['id'], m.get('round', 1), m['property'], m['change'], ", ".join(m['caught_by']),
               "; ".join(m['missed_before_strengthening']) or "-", m['strengthening'] or "-"))
out += ["",
"Rejected: `rejected/R01-oneof-picks-any-resolved-option` (round 2, written for C02) - confirmed as a change that",
"passes the suite and fails its author's demonstration, but it does not break a listed property as stated: every",
"option it can pick was produced and arrives with its own discriminator (see its meta.json).", "",
"Notes", "",
"* Independent duplicates: M02 = M03 = M10 = M16 (round 1, four agents), M41 = M22, M44 = M01 (round 3), and M50 is",
"  M40's sibling (`return` instead of `break`). M02 was missed by all four checks it was written for because the",
"  generator never produced an expression with two step references - the most instructive miss of round 1.",
"* Detection is probabilistic per seed for M02 in C03/C02 (the dropped edge only misbehaves when the unconnected",
"  producer is the slower one): C10 and C16 catch it at every seed tried (structural comparison), C03 at 2 of 4",
"  seeds, C02 at 4 of 4 after the resolution-error rule. M34 is caught by C07 at every seed tried after the last",
"  generator change (2 of 4 before).",
"* M13, M36, M49 and M51 are data races: C17 (race detector) reports them directly; C13 sees M13's functional effect",
"  only when an item is held between computing and storing its result, which the site delays now do.",
"* M15 takes ~9 minutes to report in C15, M25 ~90 s in C06, M44 ~2 min in C06 and M47 ~1 min in C09 because every",
"  failing case waits for an engine timeout or the hang watchdog and is then shrunk; on the unchanged tree those",
"  cases return at once.",
"* M37 is history dependent (a cache): the replay file holds the case that failed, which passes when replayed alone;",
"  the shard's seed reproduces the sequence.",
"* Caught on first contact by some check (before any strengthening; per kept change, duplicates counted): " + ", ".join("round %s %d of %d" % (r, a, b) for r, (a, b) in sorted(first.items())) + ".",
"  Every miss was a generator (or sweep) that could not reach the needed shape, plus twice a rule that discarded the",
"  symptom as another property's (a hang under a delay plan; a fallback verdict on a multi-output workflow). After the",
"  strengthening listed above all %d kept changes are caught at the quick tier." % len(rows),
""]
open(V + '/seeded/README.md', 'w').write("\n".join(out))
print("rows", len(rows), first)

#!/bin/bash
# Runs the repository's pinned test suite (guard off) and prints pass/fail counts compared with BASELINE.json.
cd ${1:-/repo}
export GOFLAGS=-mod=mod GOPROXY=off GOSUMDB=off GOTOOLCHAIN=local
go test -json -vet=off -count=1 -timeout 25m ./... > /tmp/suite.$$.json 2>/dev/null
python3 - /tmp/suite.$$.json <<'PY'
import json,sys
base=json.load(open('/root/.vp/BASELINE.json'))
stable=set(base['stable_pass'])
res={}
for l in open(sys.argv[1]):
    try: e=json.loads(l)
    except: continue
    if e.get('Test') and e.get('Action') in ('pass','fail','skip'):
        res[e['Package']+'::'+e['Test']]=e['Action']
passed={k for k,v in res.items() if v=='pass'}
missing=sorted(stable-passed)
print("suite: %d passed, %d failed; baseline %d, baseline tests not passing: %d"%(len(passed),sum(1 for v in res.values() if v=='fail'),len(stable),len(missing)))
for m in missing[:20]: print("  NOT PASSING:",m, res.get(m))
sys.exit(1 if missing else 0)
PY
rc=$?
rm -f /tmp/suite.$$.json
exit $rc

module verif/instr

go 1.23

// instr inserts schedule points (vsched.P calls) into an engine source file.
// usage: instr <in.go> <out.go> <relative name>
// It prints the inserted site names, one per line. Standard library only.
package main

import (
	"bytes"
	"fmt"
	"go/ast"
	"go/format"
	"go/parser"
	"go/token"
	"os"
	"path/filepath"
	"strconv"
	"strings"
)

const vschedPath = "go.flow.arcalot.io/engine/internal/verif/vsched"

type instr struct {
	file    string
	fn      string
	counter map[string]int
	sites   []string
}

func (in *instr) site(kind string) *ast.ExprStmt {
	in.counter[in.fn]++
	name := fmt.Sprintf("%s:%s#%d:%s", in.file, in.fn, in.counter[in.fn], kind)
	in.sites = append(in.sites, name)
	return &ast.ExprStmt{X: &ast.CallExpr{
		Fun:  &ast.SelectorExpr{X: ast.NewIdent("vsched"), Sel: ast.NewIdent("P")},
		Args: []ast.Expr{&ast.BasicLit{Kind: token.STRING, Value: strconv.Quote(name)}},
	}}
}

// syncKind inspects the top level of a statement (not nested blocks or function literals) and
// returns the kind of synchronisation operation it contains, or "".
func syncKind(s ast.Stmt) string {
	kind := ""
	var inspectExpr func(e ast.Node)
	inspectExpr = func(e ast.Node) {
		if e == nil {
			return
		}
		ast.Inspect(e, func(n ast.Node) bool {
			switch x := n.(type) {
			case *ast.FuncLit:
				return false
			case *ast.UnaryExpr:
				if x.Op == token.ARROW && kind == "" {
					kind = "recv"
				}
			case *ast.CallExpr:
				switch f := x.Fun.(type) {
				case *ast.SelectorExpr:
					switch f.Sel.Name {
					case "Lock", "RLock":
						kind = "lock"
					case "Unlock", "RUnlock":
						if kind == "" {
							kind = "unlock"
						}
					case "Wait":
						kind = "wait"
					case "Add":
						if kind == "" && strings.Contains(strings.ToLower(exprString(f.X)), "wg") {
							kind = "wgadd"
						}
					case "Done":
						if kind == "" && strings.Contains(strings.ToLower(exprString(f.X)), "wg") {
							kind = "wgdone"
						}
					case "cancel", "Swap", "Store", "Load":
						if kind == "" {
							kind = strings.ToLower(f.Sel.Name)
						}
					}
				case *ast.Ident:
					if (f.Name == "close" || f.Name == "cancel" || f.Name == "cancelFunction") && kind == "" {
						kind = f.Name
					}
				}
			}
			return true
		})
	}
	switch x := s.(type) {
	case *ast.ExprStmt:
		inspectExpr(x.X)
	case *ast.AssignStmt:
		for _, r := range x.Rhs {
			inspectExpr(r)
		}
	case *ast.SendStmt:
		kind = "send"
	case *ast.GoStmt:
		kind = "go"
	case *ast.DeferStmt:
		// deferred calls run later; no point before the defer statement itself
	case *ast.SelectStmt:
		kind = "select"
	case *ast.IfStmt:
		if x.Init != nil {
			if k := syncKind(x.Init); k != "" {
				kind = k
			}
		}
		inspectExpr(x.Cond)
	case *ast.ReturnStmt:
		for _, r := range x.Results {
			inspectExpr(r)
		}
	case *ast.RangeStmt:
		inspectExpr(x.X)
	case *ast.LabeledStmt:
		return syncKind(x.Stmt)
	case *ast.SwitchStmt:
		if x.Init != nil {
			kind = syncKind(x.Init)
		}
		inspectExpr(x.Tag)
	}
	return kind
}

func exprString(e ast.Expr) string {
	var b bytes.Buffer
	_ = format.Node(&b, token.NewFileSet(), e)
	return b.String()
}

func (in *instr) rewriteList(list []ast.Stmt) []ast.Stmt {
	var out []ast.Stmt
	for _, s := range list {
		in.rewriteStmt(s)
		k := syncKind(s)
		if k != "" {
			out = append(out, in.site(k))
		}
		out = append(out, s)
		if k == "unlock" {
			out = append(out, in.site("after-unlock"))
		}
	}
	return out
}

// rewriteStmt descends into nested blocks.
func (in *instr) rewriteStmt(s ast.Stmt) {
	switch x := s.(type) {
	case *ast.BlockStmt:
		x.List = in.rewriteList(x.List)
	case *ast.IfStmt:
		in.rewriteStmt(x.Body)
		if x.Else != nil {
			in.rewriteStmt(x.Else)
		}
	case *ast.ForStmt:
		in.rewriteStmt(x.Body)
	case *ast.RangeStmt:
		in.rewriteStmt(x.Body)
	case *ast.SwitchStmt:
		in.rewriteStmt(x.Body)
	case *ast.TypeSwitchStmt:
		in.rewriteStmt(x.Body)
	case *ast.CaseClause:
		x.Body = in.rewriteList(x.Body)
	case *ast.SelectStmt:
		for _, c := range x.Body.List {
			cc := c.(*ast.CommClause)
			cc.Body = in.rewriteList(cc.Body)
			cc.Body = append([]ast.Stmt{in.site("woke")}, cc.Body...)
		}
	case *ast.LabeledStmt:
		in.rewriteStmt(x.Stmt)
	case *ast.GoStmt:
		in.rewriteFuncLits(x.Call, true)
		return
	case *ast.DeferStmt:
		in.rewriteFuncLits(x.Call, false)
		return
	}
	// function literals inside expressions of this statement
	switch x := s.(type) {
	case *ast.ExprStmt:
		in.rewriteFuncLits(x.X, false)
	case *ast.AssignStmt:
		for _, r := range x.Rhs {
			in.rewriteFuncLits(r, false)
		}
	case *ast.ReturnStmt:
		for _, r := range x.Results {
			in.rewriteFuncLits(r, false)
		}
	case *ast.DeclStmt:
		in.rewriteFuncLits(x.Decl, false)
	}
}

func (in *instr) rewriteFuncLits(n ast.Node, isGo bool) {
	if n == nil {
		return
	}
	ast.Inspect(n, func(m ast.Node) bool {
		if fl, ok := m.(*ast.FuncLit); ok {
			fl.Body.List = in.rewriteList(fl.Body.List)
			if isGo {
				fl.Body.List = append([]ast.Stmt{in.site("goroutine-start")}, fl.Body.List...)
			}
			return false
		}
		return true
	})
}

func main() {
	if len(os.Args) != 4 {
		fmt.Fprintln(os.Stderr, "usage: instr <in.go> <out.go> <relative name>")
		os.Exit(2)
	}
	fset := token.NewFileSet()
	f, err := parser.ParseFile(fset, os.Args[1], nil, parser.ParseComments)
	if err != nil {
		fmt.Fprintln(os.Stderr, err)
		os.Exit(1)
	}
	in := &instr{file: filepath.Base(filepath.Dir(os.Args[3])) + "/" + filepath.Base(os.Args[3]), counter: map[string]int{}}
	for _, d := range f.Decls {
		fd, ok := d.(*ast.FuncDecl)
		if !ok || fd.Body == nil {
			continue
		}
		in.fn = fd.Name.Name
		recv := ""
		if fd.Recv != nil && len(fd.Recv.List) > 0 {
			recv = strings.TrimPrefix(exprString(fd.Recv.List[0].Type), "*")
			in.fn = recv + "." + fd.Name.Name
		}
		fd.Body.List = in.rewriteList(fd.Body.List)
		if recv == "loopState" || recv == "runningStep" || recv == "executableWorkflow" {
			entry := in.site("entry")
			// stable name for entry points: ordinal 0
			name := fmt.Sprintf("%s:%s#0:entry", in.file, in.fn)
			in.sites[len(in.sites)-1] = name
			entry.X.(*ast.CallExpr).Args[0].(*ast.BasicLit).Value = strconv.Quote(name)
			in.counter[in.fn]--
			fd.Body.List = append([]ast.Stmt{entry}, fd.Body.List...)
		}
	}
	if len(in.sites) == 0 {
		fmt.Fprintln(os.Stderr, "no sites found")
		os.Exit(1)
	}
	// add the import
	imp := &ast.ImportSpec{Path: &ast.BasicLit{Kind: token.STRING, Value: strconv.Quote(vschedPath)}}
	added := false
	for _, d := range f.Decls {
		if gd, ok := d.(*ast.GenDecl); ok && gd.Tok == token.IMPORT {
			gd.Specs = append(gd.Specs, imp)
			added = true
			break
		}
	}
	if !added {
		f.Decls = append([]ast.Decl{&ast.GenDecl{Tok: token.IMPORT, Specs: []ast.Spec{imp}}}, f.Decls...)
	}
	// Drop comments' positional influence by printing without the comment map of moved nodes:
	// free-floating comments keep their place because go/printer orders by position.
	var buf bytes.Buffer
	if err := format.Node(&buf, fset, f); err != nil {
		fmt.Fprintln(os.Stderr, err)
		os.Exit(1)
	}
	if err := os.MkdirAll(filepath.Dir(os.Args[2]), 0o755); err != nil {
		fmt.Fprintln(os.Stderr, err)
		os.Exit(1)
	}
	if err := os.WriteFile(os.Args[2], buf.Bytes(), 0o644); err != nil {
		fmt.Fprintln(os.Stderr, err)
		os.Exit(1)
	}
	for _, s := range in.sites {
		fmt.Println(s)
	}
}

#!/usr/bin/env python3
"""Native (coverage-guided) fuzzing of engine.New / Parse / Run for C11's thorough tier.

  nativefuzz.py <seconds> <out-dir>

Builds build/fuzz.test (go test -c -fuzz) from /repo's working tree, runs FuzzEngineParse for the
given time on all cores and prints one JSON line: {"execs":..,"new_interesting":..,"crasher":path|null,
"case":path|null,"log_tail":..}. A crasher is converted into a C11 replay case (<out-dir>/native-fuzz-case.json)
by the harness itself (TestFuzzCrasherToCase). Exit 0 = ran (crasher or not), 2 = could not run."""
import json, os, re, shutil, subprocess, sys
VERIF = os.path.dirname(os.path.dirname(os.path.abspath(__file__)))
sys.path.insert(0, os.path.join(VERIF, "tools"))
import vbuild

def main():
    secs = int(sys.argv[1]); outdir = os.path.abspath(sys.argv[2])
    os.makedirs(outdir, exist_ok=True)
    binary = vbuild.build("fuzz.test", extra=["-fuzz=FuzzEngineParse"])
    if not binary:
        print(json.dumps({"error": "build failed"})); return 2
    rundir = os.path.join(outdir, "fuzzrun")
    shutil.rmtree(rundir, ignore_errors=True)
    os.makedirs(rundir)
    cache = os.path.join(VERIF, "build", "fuzzcache")
    os.makedirs(cache, exist_ok=True)
    env = dict(os.environ, VERIF_SCRATCH=rundir)
    res = {"execs": 0, "new_interesting": 0, "crasher": None, "case": None}
    case = os.path.join(outdir, "native-fuzz-case.json")
    # phase 1: the seed corpus as plain sub-tests (a failing or fatal seed is not saved by the fuzzer)
    try:
        sr = subprocess.run([binary, "-test.run", "^FuzzEngineParse$", "-test.v", "-test.timeout", "20m"], cwd=rundir, env=env,
                            capture_output=True, text=True, timeout=1500)
        sout = sr.stdout + sr.stderr
    except subprocess.TimeoutExpired as e:
        sr, sout = None, "timeout"
    if sr is None or sr.returncode != 0:
        bad = re.findall(r"--- FAIL: FuzzEngineParse/seed#(\d+)", sout)
        if not bad:
            runs = re.findall(r"=== RUN\s+FuzzEngineParse/seed#(\d+)", sout)
            bad = runs[-1:]  # the process died in the last seed it started
        if not bad:
            res["error"] = "seed corpus run failed: " + sout[-400:]
            print(json.dumps(res)); return 2
        res["failing_seed"] = int(bad[0])
        c = subprocess.run([binary, "-test.run", "^TestFuzzSeedToCase$"], cwd=VERIF,
                           env=dict(os.environ, VERIF_FUZZ_SEED=bad[0], VERIF_FAIL_OUT=case), capture_output=True, text=True)
        if c.returncode == 0 and os.path.exists(case):
            res["case"] = case
            print(json.dumps(res)); return 0
        res["error"] = "seed %s fails but could not be converted: %s" % (bad[0], (c.stdout + c.stderr)[-300:])
        print(json.dumps(res)); return 2
    res["seeds_passed"] = len(re.findall(r"--- PASS: FuzzEngineParse/seed#", sout))
    # phase 2: coverage-guided fuzzing
    cmd = [binary, "-test.run", "^$", "-test.fuzz", "^FuzzEngineParse$", "-test.fuzztime=%ds" % secs,
           "-test.fuzzcachedir=" + cache, "-test.parallel=%d" % (os.cpu_count() or 8), "-test.timeout", "0"]
    try:
        r = subprocess.run(cmd, cwd=rundir, env=env, capture_output=True, text=True, timeout=secs + 600)
        out = r.stdout + r.stderr
    except subprocess.TimeoutExpired as e:
        print(json.dumps({"error": "fuzz run exceeded its time budget"})); return 2
    res["log_tail"] = out[-1500:]
    for m in re.finditer(r"execs: (\d+).*?new interesting: (\d+) \(total: (\d+)\)", out):
        res["execs"], res["new_interesting"], res["corpus_total"] = int(m.group(1)), int(m.group(2)), int(m.group(3))
    m = re.search(r"Failing input written to (\S+)", out)
    if m:
        crasher = os.path.join(rundir, m.group(1))
        res["crasher"] = crasher
        c = subprocess.run([binary, "-test.run", "^TestFuzzCrasherToCase$"], cwd=VERIF,
                           env=dict(os.environ, VERIF_FUZZ_CRASHER=crasher, VERIF_FAIL_OUT=case), capture_output=True, text=True)
        if c.returncode == 0 and os.path.exists(case):
            res["case"] = case
        else:
            res["convert_error"] = (c.stdout + c.stderr)[-800:]
    elif r.returncode != 0 and "PASS" not in out:
        res["error"] = "fuzz run failed without a saved input"
        print(json.dumps(res)); return 2
    print(json.dumps(res))
    return 0

if __name__ == "__main__":
    sys.exit(main())

#!/bin/bash
# usage: tools/mutcheck.sh <patch.diff> <ID> [<ID>...]   (env TIER=quick|thorough, SEEDS="1 2")
# Applies a seeded change to /repo, runs the given checks, and ALWAYS restores /repo afterwards.
patch=$(realpath "$1"); shift
cd /repo || exit 2
if [ -n "$(git status --porcelain)" ]; then echo "/repo is not clean"; exit 2; fi
git apply --check "$patch" || { echo "patch does not apply"; exit 2; }
git apply "$patch"
trap 'cd /repo && git checkout -q -- . && git clean -fdq -- . >/dev/null 2>&1; echo "[mutcheck] /repo restored: $(git -C /repo status --porcelain | wc -l) changes left"' EXIT
cd /verif
for id in "$@"; do
  for seed in ${SEEDS:-1}; do
    out=$(VERIF_SEED=$seed ./check $id --tier ${TIER:-quick} 2>&1); rc=$?
    echo "== $id seed=$seed rc=$rc"
    echo "$out" | grep -E "^\[check\] (C|violation|infra)|VIOLATION|KNOWN" | cut -c1-400 | head -6
  done
done

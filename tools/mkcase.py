#!/usr/bin/env python3
"""Helpers to hand-write replay cases in the AST JSON format."""
import json, sys

def lit(v):
    if isinstance(v, bool): return {"k": "lit", "lit": {"t": "bool", "b": v}}
    if isinstance(v, int): return {"k": "lit", "lit": {"t": "int", "i": v}}
    if isinstance(v, float): return {"k": "lit", "lit": {"t": "float", "f": v}}
    return {"k": "lit", "lit": {"t": "string", "s": v}}

def out(step, stage, output, *path):
    return {"k": "out", "step": step, "stage": stage, "output": output, "path": list(path)}

def ex(e): return {"k": "expr", "expr": e}
def raw(text): return {"k": "expr", "expr": {"k": "raw", "raw": text}}
def mp(d): return {"k": "map", "keys": list(d.keys()), "vals": list(d.values())}
def lst(l): return {"k": "list", "vals": l}

def plugin(id, op="op", **fields):
    inp = {"key": lit(id)}
    extra = {}
    for k, v in fields.items():
        if k in ("wait_for", "enabled", "stop_if", "deploy_tag", "closure_timeout_ms"):
            extra[k] = v
        else:
            inp[k] = v
    s = {"id": id, "kind": "plugin", "op": op, "input": mp(inp)}
    s.update(extra)
    return s

def case(prop, steps, outputs, script=None, deploys=None, input_fields=None, input_doc=None, subs=None, **kw):
    c = {"prop": prop, "main": {"input": input_fields or [], "steps": steps,
                                 "outputs": [{"id": k, "val": v} for k, v in outputs.items()]},
         "input_doc": input_doc or {}, "script": {"steps": script or {}, "deploys": deploys or {}}}
    if subs: c["subs"] = subs
    c.update(kw)
    return c

def write(path, prop, message, c):
    json.dump({"property": prop, "message": message, "case": c}, open(path, "w"), indent=1)

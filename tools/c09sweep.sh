#!/bin/bash
# dev helper: exhaustive C09 sweep, collecting all failing (motif, site) pairs into build/c09-<tag>/
tag=${1:-x}; cd /verif; python3 tools/vbuild.py sched.test >/dev/null || exit 2
mkdir -p build/c09-$tag
for i in $(seq 0 15); do
  VERIF_TIER=thorough VERIF_C09_COLLECT=1 VERIF_SHARD=$i VERIF_SHARDS=16 ./build/sched.test -test.run '^TestC09$' -rapid.checks=1 -rapid.nofailfile -test.timeout 1800s > build/c09-$tag/shard$i.log 2>&1 &
done
wait
cat build/c09-$tag/shard*.log | grep -c C09-FAIL
cat build/c09-$tag/shard*.log | grep C09-FAIL | cut -f3 | sort | uniq -c | sort -rn | awk '{print $1, $2}'

#!/bin/bash
# Confirms a candidate seeded change in a scratch worktree of /repo's HEAD:
#   tools/verify_mutant.sh <src-dir-with-patch.diff-and-demo_test.go> <name> [demo-dest (default workflow/zz_demo_test.go)] [SUITE=1]
# 1. patch applies to the clean tree, 2. tree builds, 3. demo fails with the patch, 4. demo passes without,
# 5. (SUITE=1) the pinned suite still passes with the patch. Prints a JSON summary line; removes the worktree.
set -u
SRC=$1; NAME=$2; DEST=${3:-workflow/zz_demo_test.go}
export GOFLAGS=-mod=mod GOPROXY=off GOSUMDB=off GOTOOLCHAIN=local
WT=/tmp/mv/$NAME
mkdir -p /tmp/mv
git -C /repo worktree remove --force $WT 2>/dev/null
git -C /repo worktree add -q --detach $WT HEAD || exit 2
cleanup() { git -C /repo worktree remove --force $WT 2>/dev/null; rm -rf $WT; }
trap cleanup EXIT
cd $WT
applies=no; builds=no; demo_with=?; demo_without=?; suite=skipped
if git apply --check $SRC/patch.diff 2>/tmp/mv/$NAME.applyerr; then applies=yes; else cat /tmp/mv/$NAME.applyerr; echo "{\"name\":\"$NAME\",\"applies\":\"no\"}"; exit 1; fi
cp $SRC/demo_test.go $DEST
PKG=./$(dirname $DEST)/
RUN=$(grep -h '^func Test' $SRC/demo_test.go | sed 's/func \(Test[A-Za-z0-9_]*\).*/\1/' | paste -sd'|')
# without the patch
go test ${GOTESTFLAGS:-} -vet=off -count=${COUNT:-3} -run "^($RUN)\$" $PKG > /tmp/mv/$NAME.without.log 2>&1 && demo_without=pass || demo_without=fail
git apply $SRC/patch.diff
go build ./... > /tmp/mv/$NAME.build.log 2>&1 && builds=yes
go test ${GOTESTFLAGS:-} -vet=off -count=${COUNT:-3} -run "^($RUN)\$" $PKG > /tmp/mv/$NAME.with.log 2>&1 && demo_with=pass || demo_with=fail
if [ "${SUITE:-0}" = 1 ]; then
  rm -f $DEST
  /verif/tools/suite.sh $WT > /tmp/mv/$NAME.suite.log 2>&1 && suite=pass || suite=fail
fi
echo "{\"name\":\"$NAME\",\"applies\":\"$applies\",\"builds\":\"$builds\",\"demo_with_patch\":\"$demo_with\",\"demo_without_patch\":\"$demo_without\",\"suite_with_patch\":\"$suite\",\"demo_tests\":\"$RUN\"}"

#!/usr/bin/env python3
"""Build the harness test binaries against /repo's current working tree (overlay + modfile)."""
import json, os, subprocess, sys, shutil, hashlib

VERIF = os.path.dirname(os.path.dirname(os.path.abspath(__file__)))
REPO = os.environ.get("VERIF_REPO", "/repo")
BUILD = os.path.join(VERIF, "build")

def goenv():
    env = dict(os.environ)
    env.update(GOFLAGS="-mod=mod", GOPROXY="off", GOSUMDB="off", GOTOOLCHAIN="local", CGO_ENABLED=env.get("CGO_ENABLED", "1"))
    return env

def prepare_mod():
    os.makedirs(BUILD, exist_ok=True)
    mod = open(os.path.join(REPO, "go.mod")).read()
    if "pgregory.net/rapid" not in mod:
        mod += "\nrequire pgregory.net/rapid v1.3.0\n"
    modpath = os.path.join(BUILD, "go.mod")
    if not os.path.exists(modpath) or open(modpath).read() != mod:
        open(modpath, "w").write(mod)
    sumsrc = open(os.path.join(REPO, "go.sum")).read()
    extra = open(os.path.join(VERIF, "tools", "rapid.sum")).read()
    sumpath = os.path.join(BUILD, "go.sum")
    want = sumsrc + extra
    if not os.path.exists(sumpath) or open(sumpath).read() != want:
        open(sumpath, "w").write(want)
    return modpath

def overlay(instr=False):
    repl = {}
    hroot = os.path.join(VERIF, "harness")
    for d, _, files in os.walk(hroot):
        for f in files:
            if f.endswith(".go"):
                rel = os.path.relpath(os.path.join(d, f), hroot)
                repl[os.path.join(REPO, "internal", "verif", rel)] = os.path.join(d, f)
    # root-package test files (C20)
    rroot = os.path.join(VERIF, "harness_root")
    if os.path.isdir(rroot):
        for d, _, files in os.walk(rroot):
            for f in files:
                if f.endswith(".go"):
                    rel = os.path.relpath(os.path.join(d, f), rroot)
                    repl[os.path.join(REPO, rel)] = os.path.join(d, f)
    if instr:
        idir = os.path.join(BUILD, "instr")
        for d, _, files in os.walk(idir):
            for f in files:
                if f.endswith(".go"):
                    rel = os.path.relpath(os.path.join(d, f), idir)
                    repl[os.path.join(REPO, rel)] = os.path.join(d, f)
    name = "overlay-instr.json" if instr else "overlay.json"
    p = os.path.join(BUILD, name)
    open(p, "w").write(json.dumps({"Replace": repl}, indent=1, sort_keys=True))
    return p

INSTR_FILES = ["workflow/workflow.go", "internal/step/plugin/provider.go", "internal/step/foreach/provider.go"]

def run_instr():
    tool = os.path.join(BUILD, "instr-tool")
    src = os.path.join(VERIF, "tools", "instr")
    r = subprocess.run(["go", "build", "-o", tool, "."], cwd=src, env=goenv(), capture_output=True, text=True)
    if r.returncode != 0:
        sys.stderr.write(r.stdout + r.stderr)
        return False
    idir = os.path.join(BUILD, "instr")
    shutil.rmtree(idir, ignore_errors=True)
    sites = {}
    for f in INSTR_FILES:
        out = os.path.join(idir, f)
        os.makedirs(os.path.dirname(out), exist_ok=True)
        r = subprocess.run([tool, os.path.join(REPO, f), out, f], capture_output=True, text=True)
        if r.returncode != 0:
            sys.stderr.write("instrumenter failed on %s:\n%s%s" % (f, r.stdout, r.stderr))
            return False
        s = [l for l in r.stdout.splitlines() if l.strip()]
        if not s:
            sys.stderr.write("instrumenter found no sites in %s\n" % f)
            return False
        sites[f] = s
    open(os.path.join(BUILD, "sites.json"), "w").write(json.dumps(sites, indent=1))
    return True

def build(name, pkg="./internal/verif/props/", race=False, instr=False, tags="verif", extra=None):
    """name: output binary name under build/. Returns path or None."""
    modpath = prepare_mod()
    if instr and not run_instr():
        return None
    ov = overlay(instr)
    out = os.path.join(BUILD, name)
    cmd = ["go", "test", "-c", "-o", out, "-vet=off", "-tags", tags, "-modfile=" + modpath, "-overlay=" + ov]
    if race:
        cmd.append("-race")
    cmd.extend(extra or [])
    cmd.append(pkg)
    r = subprocess.run(cmd, cwd=REPO, env=goenv(), capture_output=True, text=True)
    if r.returncode != 0:
        sys.stderr.write("BUILD FAILED (%s):\n%s%s\n" % (" ".join(cmd), r.stdout, r.stderr))
        return None
    return out

def build_main():
    """The worker built from cmd/arcaflow (package main) for C20's exit-code oracle."""
    return build("main.test", pkg="./cmd/arcaflow/")


if __name__ == "__main__":
    name = sys.argv[1] if len(sys.argv) > 1 else "plain.test"
    if name == "main.test":
        p = build_main()
        print(p)
        sys.exit(0 if p else 2)
    p = build(name, race="race" in name, instr="sched" in name)
    print(p)
    sys.exit(0 if p else 2)

#!/bin/bash
# Sensitivity of the regression replays: for every repaired finding of known_findings.json the repair
# commit is reverted in a scratch worktree (tools/mutcheck_iso.sh) and the owning check's quick tier is
# run; it must report a violation. usage: tools/revert_audit.sh [K-id ...]   (env LANES=4)
# Prints one line per finding: <id> <property> <commit> caught|MISSED|revert-does-not-apply
cd /verif
mkdir -p /tmp/ra
python3 - "$@" > /tmp/ra/list.txt <<'PY'
import json,sys
want=set(sys.argv[1:])
for f in json.load(open('/verif/known_findings.json'))['findings']:
    if f['status']=='fixed' and f.get('commit') and (not want or f['id'] in want):
        print(f['id'],f['property'],f['commit'])
PY
one() {
  id=$1; prop=$2; commit=$3
  git -C /repo diff $commit $commit~1 -- . ':(exclude)*_test.go' > /tmp/ra/$id.diff
  if ! git -C /repo apply --check /tmp/ra/$id.diff 2>/dev/null; then echo "$id $prop $commit revert-does-not-apply"; return; fi
  out=$(tools/mutcheck_iso.sh /tmp/ra/$id.diff $prop 2>&1)
  if echo "$out" | grep -q "^VIOLATION property=$prop"; then echo "$id $prop $commit caught $(echo "$out" | grep -m1 '^VIOLATION' | sed 's/.*replay=//' | xargs basename)"; else echo "$id $prop $commit MISSED $(echo "$out" | grep -m1 '^==')"; fi
}
export -f one
cat /tmp/ra/list.txt | xargs -P ${LANES:-4} -L 1 bash -c 'one $0 $1 $2'
rm -rf /tmp/ra

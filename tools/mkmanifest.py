#!/usr/bin/env python3
"""Writes /verif/MANIFEST.json from tools/props_config.py and tools/manifest_meta.py."""
import json, os, sys
sys.path.insert(0, os.path.dirname(os.path.abspath(__file__)))
from props_config import PROPS
from manifest_meta import META, NOT_APPLICABLE, NOTES

VERIF = os.path.dirname(os.path.dirname(os.path.abspath(__file__)))
checks = []
for pid in sorted(PROPS):
    cfg = PROPS[pid]
    meta = META[pid]
    checks.append({
        "property_id": pid,
        "quick_cmd": "./check %s --tier quick" % pid,
        "thorough_cmd": "./check %s --tier thorough" % pid,
        "evidence_file": "/verif/evidence/%s.json" % pid,
        "replay_cmd_template": "./check %s --replay {path}" % pid,
        "engine": "rapid-harness",
        "level_claimed": {"category": cfg["level"], "text": meta["level_text"], "design_ref": meta.get("design_ref", "DESIGN.md section 9 (%s)" % pid)},
        "level_note": meta["level_note"],
        "technique": meta["technique"],
    })
manifest = {
    "version": 1,
    "setup_cmd": "./setup.sh",
    "hooks": {
        "guard": "verif",
        "enable": "no source change in /repo: harness packages (build tag `verif`) and, for the `sched` binaries, instrumented copies of three engine files are injected at build time with `go test -c -tags verif -overlay=build/overlay*.json -modfile=build/go.mod` (tools/vbuild.py)",
        "baseline_off_cmd": "/verif/tools/suite.sh /repo",
        "source_commits": [],
        "add_only": True,
    },
    "engines": [
        {"name": "rapid-harness", "path": "/verif/harness", "serves_properties": sorted(PROPS),
         "kind_free_text": "pgregory.net/rapid v1.3.0 generators + scripted deployer/plugin + independent reference model; one worker process per shard executes cases against the real engine built from /repo's working tree"},
    ],
    "checks": checks,
    "not_applicable": NOT_APPLICABLE,
    "notes": NOTES,
}
json.dump(manifest, open(os.path.join(VERIF, "MANIFEST.json"), "w"), indent=1)
print("wrote MANIFEST.json with", len(checks), "checks;", len(NOT_APPLICABLE), "not applicable")

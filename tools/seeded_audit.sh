#!/bin/bash
# Re-checks kept seeded changes against the current checks: for every seeded/M*/ whose meta.json names
# one of the given properties among caught_by (all when none is given), the first such check is run at the
# quick tier in isolation (tools/mutcheck_iso.sh). usage: tools/seeded_audit.sh [ID ...]  (env LANES=4, SEEDS)
cd /verif
python3 - "$@" > /tmp/seeded_audit.list <<'PY'
import json,glob,sys,re
want=set(sys.argv[1:])
for f in sorted(glob.glob('/verif/seeded/M*/meta.json')):
    d=json.load(open(f))
    ids=[re.match(r'C\d\d',c).group(0) for c in d['caught_by'] if re.match(r'C\d\d',c)]
    ids=[i for i in ids if not want or i in want]
    if ids: print(f.rsplit('/',1)[0], ids[0])
PY
one() {
  out=$(tools/mutcheck_iso.sh $0/patch.diff $1 2>&1)
  if echo "$out" | grep -q "^VIOLATION property=$1"; then echo "$(basename $0) $1 caught"; else echo "$(basename $0) $1 MISSED $(echo "$out" | grep '^==' | tr '\n' ' ')"; fi
}
export -f one
cat /tmp/seeded_audit.list | xargs -P ${LANES:-4} -L 1 bash -c 'one "$@"'
rm -f /tmp/seeded_audit.list

#!/bin/bash
# runs every registered check's quick (or $TIER) command; prints one line each
cd /verif
for p in $(python3 -c "
import sys; sys.path.insert(0,'tools')
from props_config import PROPS
print(' '.join(sorted(PROPS)))"); do
  out=$(./check $p --tier ${TIER:-quick} 2>&1); rc=$?
  echo "$p rc=$rc $(echo "$out" | grep -E '^\[check\] C' | tail -1 | cut -c1-160) $(echo "$out" | grep -c KNOWN-FINDING)kf"
  if [ $rc -ne 0 ]; then echo "$out" | grep -E "violation|VIOLATION|infrastructure" | head -5 | cut -c1-600; fi
done

"""Per-property manifest texts."""
from props_config import PROPS

TB = "trusted base: the scripted plugin/deployer and event log (harness/vplug), the reference model (harness/vcase/ref.go), rapid's generators; the Go scheduler is not controlled"

META = {
    "C01": {"technique": "property-based testing: generated workflows + watchdog/deadlock-evidence oracle",
            "level_text": "Generated-input search: random workflow programs incl. wide fan-in (>20 producers) and never-ending steps run against the real engine; a violation is a run that does not return (blocked-goroutine evidence), returns neither/both output and error, or returns late when the reference says nothing is producible. Search, not proof: absence of hangs is only shown for the explored programs and schedules.",
            "level_note": TB + "; liveness is judged by a 10 s watchdog plus two goroutine dumps showing the same blocked engine frames"},
    "C02": {"technique": "property-based testing: generated workflows + reference evaluation of logged plugin inputs",
            "level_text": "Generated-input search with an independent oracle: every plugin execution and deployment logged by the scripted world is compared with the reference evaluation of the step's expressions, and producer/consumer order is checked on the global event sequence.",
            "level_note": TB + "; events after the run started shutting down are not judged (shutdown observed through a build-time schedule point)"},
    "C03": {"technique": "property-based testing: generated workflows vs reference interpreter (result set)",
            "level_text": "Generated-input search: (id, data, error) returned by Execute must lie in the result set computed by a reference interpreter written from the workflow language's declarative meaning.",
            "level_note": TB + "; generator classes covered by open findings are excluded by construction and counted in the evidence"},
    "C04": {"technique": "property-based testing: generated workflows vs reference may-run set over the plugin log",
            "level_text": "Generated-input search: the set of plugin executions observed in the scripted world's log must be a subset of the reference's may-run set (prerequisites produced, enabled, deployment succeeded).",
            "level_note": TB + "; events after the run started shutting down are not judged"},
    "C07": {"technique": "property-based testing with fault-injecting expression and step generators, worker-process crash oracle",
            "level_text": "Generated-input search: programs whose expressions fault at run time and whose steps misbehave are executed in a worker process; process death or a recovered panic is a violation, and so is returning an output whose expression cannot be evaluated.",
            "level_note": TB + "; crashes are observed as worker death (exit status + stderr) or recovered panic values"},
    "C08": {"technique": "property-based testing: generated references to every engine-generated output + schema validation oracle",
            "level_text": "Generated-input search: every stage output an expression can name is referenced (whole and by field) under the outcome that produces it; violations are 'bug:' consistency errors, returned data that does not unserialize with the declared output schema, or data whose shape differs from the reference.",
            "level_note": TB + "; stage inputs are validated by the real plugin-side ATP server (an ill-typed input surfaces as a crash/bug error)"},
    "C18": {"technique": "property-based testing of each built-in function against independent laws and its own declared types",
            "level_text": "Generated-input search over the declared parameter domains with boundary-value classes; oracle = totality (no panic/death), result validates against the declared or derived output type, determinism, and laws written independently of the implementation.",
            "level_note": "trusted base: Go's math/strconv/strings/big packages used as reference implementations; the functions are called through CallableFunction.Call in a worker process with a 4 GiB address-space limit"},
    "C10": {"technique": "property-based testing: generated workflows, expected-graph oracle (set equality) + enumerated single-point corruptions",
            "level_text": "Generated-input search: the prepared DAG must equal (nodes and typed edges, both directions) the graph a reference derives from the workflow text; generated single-point corruptions of accepted programs must all be rejected.",
            "level_note": TB + "; corruption kinds are limited to ones whose invalidity follows from the property text"},
    "C16": {"technique": "metamorphic property-based testing: repeat / permute / rename transformations of generated workflows",
            "level_text": "Metamorphic relations over generated programs: repetition, reordering and consistent renaming must leave verdict, graph, output schemas and namespaces unchanged up to names and generated identifiers.",
            "level_note": TB + "; Go map iteration order is exercised by repetition, not controlled"},
    "C11": {"technique": "structure-aware fuzzing: generated YAML node corruptions, byte mutations, random text and file trees against a crash/hang oracle",
            "level_text": "Generated-input search over workflow files, sub-workflow trees and input documents through the public engine API in a worker process; any panic, process death (stack exhaustion) or Parse that does not return is a violation; file trees carry their expected verdict.",
            "level_note": "trusted base: gopkg.in/yaml.v3 to build the corrupted documents, the worker/watchdog plumbing; byte strings travel base64-encoded"},
    "C19": {"technique": "property-based testing: generated input schemas and valid / single-mutation-invalid documents, normalisation oracle",
            "level_text": "Generated-input search over input schemas and documents: an invalid document must be refused before the scripted deployer sees any run-phase activity; a valid one must reach every consumer exactly as the harness's own normalisation (types, defaults) predicts, also through the YAML decoding path.",
            "level_note": TB + "; validity of a document is decided by construction (one mutation of a valid document)"},
    "C05": {"technique": "property-based fault injection: generated exit paths (cancel triggers, launch/probe failures) + resource accounting oracle",
            "level_text": "Generated workflows are driven down each exit path with injected faults and cancellation instants; the scripted deployer's deploy/close counters, the plugin's in-progress counter and a goroutine census decide whether anything was left behind.",
            "level_note": TB + "; the launch-failure path needs the harness step kind vstartfail because the built-in providers cannot fail in Start after Prepare"},
    "C06": {"technique": "property-based fault injection: cancellation triggers on generated life-cycle instants + time bound / signal / genuineness oracle",
            "level_text": "Generated workflows are cancelled at generated instants of each step's life; the oracle uses the statement's own time bound, the plugin log (cancel signal or closed connection for every never-ending execution, all executions ended) and C05's accounting.",
            "level_note": TB + "; the time bound is the one the property states (it is the only clock in the oracle)"},
    "C13": {"technique": "property-based testing of the loop step: generated item lists / parallelism / per-item scripts, concurrency high-water mark + per-item reference",
            "level_text": "Generated-input search over item lists, parallelism values, per-item outcomes and durations, nested loops and cancellation instants; concurrency is measured inside the scripted plugin, results are compared with a per-item reference evaluation.",
            "level_note": TB + "; forced overlap uses a gate with a 1.5 s timeout, so a serialising implementation is reported through the high-water mark, not a hang"},
    "C15": {"technique": "property-based testing: tag-tree generators + reference semantics of the four tags over logged consumer inputs and the result",
            "level_text": "Generated-input search over placements of the four tags with all source outcomes and completion orders; the reference gives each tag its declared meaning and the plugin log supplies what consumers really received and when.",
            "level_note": TB + "; the soft-optional motif uses a gate with a 1.5 s timeout, so a blocking implementation is reported, not hung"},
    "C14": {"technique": "model-based property testing over histories of runs of one prepared workflow (sequential and overlapping), reference per run",
            "level_text": "Generated histories of sequential and overlapping runs (incl. cancelled and failing ones, a twin, re-preparation) of one prepared workflow; each run is judged against the reference for an isolated run with its input, its log slice against the dataflow oracle, and the prepared graph must stay unchanged.",
            "level_note": TB + "; overlap is real concurrency inside one worker process, not a controlled interleaving"},
    "C09": {"technique": "systematic delay injection at build-time schedule points (single-site sweep) + random multi-site delay plans, metamorphic/reference oracle",
            "level_text": "Schedule exploration by delay injection: an exhaustive (thorough) or sampled (quick) single-site sweep over all source-level synchronisation points on canonical single-result workflows, plus random multi-site plans on generated programs; the oracle is the reference result, which must not change.",
            "level_note": TB + "; the instrumenter (tools/instr, go/ast) rewrites copies of three engine files that are overlaid at build time; /repo is untouched"},
    "C12": {"technique": "stateful (model-based) property testing of the plugin step provider: generated concurrent action histories + life-story invariants",
            "level_text": "Generated histories of environment actions, sequential and overlapped, are applied to a real running plugin step with a recording handler; legal-life-story invariants are checked after every round. Interleavings are real goroutine races perturbed by generated delay plans, not an exhaustive schedule enumeration.",
            "level_note": "trusted base: the recording StageChangeHandler and the invariant code (harness/vrun/c12.go), the scripted deployer/plugin; scope is the plugin provider (the foreach provider is covered through C13)"},
    "C17": {"technique": "property-based generators of the concurrent checks executed under the Go race detector with injected delays",
            "level_text": "Dynamic race detection over generated concurrent executions (overlapping runs, cancellations, loops, provider histories, concurrent preparation) perturbed by delay plans; a report is attributed to the engine by the owner frame of the racing access.",
            "level_note": "trusted base: the Go race detector, the attribution rule in harness/props/c17_test.go; the harness itself runs under the same detector"},
    "C20": {"technique": "differential property-based testing: generated workflow file trees through six engine-API configurations, the direct executor and the CLI function",
            "level_text": "Differential testing over generated file trees and configurations: every way of running the same texts must agree on output id, data and failure, agree with the reference, classify the result by the declared or inferred error flag, and map to the documented exit code.",
            "level_note": "trusted base: the scratch-directory plumbing (harness/vrun/engine.go), the reference model; the package-main worker calls cmd/arcaflow's unexported runWorkflow through an overlaid test file"},
}

NOT_APPLICABLE = []
ALL = ["C%02d" % i for i in range(1, 21)]
for pid in ALL:
    if pid not in PROPS:
        NOT_APPLICABLE.append({"property_id": pid, "reason": "check not built yet in this revision of /verif (work in progress; see DESIGN.md section 9 for the planned check)"})

NOTES = "All checks are property-based tests / fuzzers (pgregory.net/rapid v1.3.0, enumerations, native go fuzzing for C11 thorough). See DESIGN.md. Exit codes: 0 held, 1 VIOLATION line, 2 infrastructure/inconclusive."

#!/bin/bash
# usage: tools/mutcheck_iso.sh <patch.diff> <ID> [<ID>...]   (env TIER=quick|thorough, SEEDS="1 2")
# Like mutcheck.sh, but isolated: the patch is applied in a scratch worktree of /repo's HEAD and the
# checks run from a scratch copy of /verif with VERIF_REPO pointing there, so /repo and /verif/build
# are not touched and other checks may run at the same time. Everything is removed afterwards.
patch=$(realpath "$1"); shift
tag=$$
wt=/tmp/mci/repo-$tag; vf=/tmp/mci/verif-$tag
mkdir -p /tmp/mci
git -C /repo worktree add -q --detach $wt HEAD || exit 2
trap 'git -C /repo worktree remove --force '$wt' 2>/dev/null; rm -rf '$wt' '$vf'' EXIT
git -C $wt apply "$patch" || { echo "patch does not apply"; exit 2; }
rsync -a --exclude build --exclude .git --exclude 'replays/found' /verif/ $vf/
cd $vf
for id in "$@"; do
  for seed in ${SEEDS:-1}; do
    out=$(VERIF_REPO=$wt VERIF_SEED=$seed ./check $id --tier ${TIER:-quick} 2>&1); rc=$?
    echo "== $id seed=$seed rc=$rc"
    echo "$out" | grep -E "^\[check\] (C|violation|infra)|VIOLATION|KNOWN" | cut -c1-400 | head -6
  done
done

"""Per-property configuration of the driver."""

RUN_ASSUME = [
    "the scripted plugin/deployer (harness/vplug) speaks real ATP over in-process pipes; container deployers are out of scope",
    "the reference model (harness/vcase/ref.go) states the declarative meaning; it shares no code with the engine",
]

PROPS = {
    "C03": {
        "test": "TestC03", "binary": "plain", "level": "exploration",
        "rule": "rapid-generated workflow programs (deterministic profile: 1-7 steps, plugin+foreach, tags, 1-4 outputs, "
                "all scripted outcome vectors, delays; expressions over two references, dotted one-of option ids, sub-workflows of three output shapes, "
                "pattern / enum typed inputs) run against the engine; oracle = reference result set; a fallback verdict ('no steps running') on a "
                "producible output is re-run up to three times and reported when it repeats (a single one is a counted discard: C09 / K6r). "
                "non-trivial = >=2 declared outputs or >=1 failing step/deployment; distinct = FNV-64 of the case JSON",
        "quick": {"cases": 3600, "shards": 12, "shrinktime": "30s"},
        "thorough": {"cases": 80000, "shards": 16, "shrinktime": "120s", "timeout_s": 3300},
        "assumptions": RUN_ASSUME,
    },
    "C01": {
        "test": "TestC01", "binary": "sched", "level": "exploration",
        "rule": "rapid-generated programs (live profile: 1-8 steps or wide fan-in of 2-40 producers into one output, outcomes incl. "
                "crash / deploy failure / never-ending steps, foreach, tags) run under a 10 s watchdog; oracle = returns exactly one "
                "declared output or an error, no hang (two goroutine dumps 1 s apart with identical blocked engine frames), promptness "
                "when the reference says nothing is producible (every generated plugin step has a 300 ms closure timeout, DESIGN 13.3). In an "
                "eighth of the cases the motif 'a stage output becomes impossible': a victim ending in one of 9 ways (success, error / alt output, "
                "crash, malformed output, failed deployment, crash while starting through a write-refusing connection or a schema mismatch, disabled) "
                "x a follower whose wait_for needs one of 8 stage outputs of the victim x a never-ending bystander; in a sixteenth the motif "
                "'victim stopped' (stop_if fires while the victim waits for its deployment input, during an interruptible or uninterruptible deployment, "
                "while it waits to be enabled, or while it runs; a follower needs one of 6 stage outputs). A quarter of the cases runs under injected scheduling delays (1-3 schedule points held "
                "5-40 ms on their first 1-3 passes). Cases of open finding K14 are "
                "recognised with a second, strict reference and tamed (counted). non-trivial = >=2 steps and (a non-success outcome or fan-in >= 21)",
        "quick": {"cases": 1200, "shards": 12, "shrinktime": "40s"},
        "thorough": {"cases": 20000, "shards": 16, "shrinktime": "180s", "timeout_s": 3300},
        "assumptions": RUN_ASSUME + ["a watchdog expiry without blocked-goroutine evidence is counted as inconclusive, not as a violation"],
    },
    "C02": {
        "test": "TestC02", "binary": "sched", "level": "exploration",
        "rule": "rapid-generated deterministic programs with dataflow expressions in input / wait_for / deploy / enabled / foreach items; "
                "oracle over the plugin event log up to the run's shutdown: every logged plugin input and deploy tag equals the reference "
                "evaluation of the step's expressions over what producers logged as emitted, and every required producer logged exec-end "
                "before the consumer's exec-start; a run error 'cannot resolve expressions for steps.X' is a violation too (the profile draws no "
                "expression that can fail over produced data, so the engine built a stage input before its data existed). Expressions include "
                "binary operators over two references. non-trivial = >=1 executed consumer with a step-output dependency",
        "quick": {"cases": 3600, "shards": 12, "shrinktime": "30s"},
        "thorough": {"cases": 80000, "shards": 16, "shrinktime": "120s", "timeout_s": 3300},
        "assumptions": RUN_ASSUME + ["events after the run began shutting down (schedule point at the entry of terminateAllSteps) are not judged"],
    },
    "C04": {
        "test": "TestC04", "binary": "sched", "level": "exploration",
        "rule": "rapid-generated deterministic programs with failing / crashing / disabled / deploy-failing steps at every position; "
                "in a third of the cases the stop-before-start motif (S waits for X - in its starting, enabling or deploy stage - and stops if Y; Z needs Y; "
                "X can finish only after Z started), in a twelfth its late-receiver variant (S's goroutine is delayed in front of its blocking receive so that "
                "stop and input are both pending, finding K31). "
                "oracle: the set of plugin executions logged before shutdown is a subset of the reference's may-run set; in the motif S never "
                "executes. non-trivial = >=1 step that must not run",
        "quick": {"cases": 3600, "shards": 12, "shrinktime": "30s"},
        "thorough": {"cases": 80000, "shards": 16, "shrinktime": "120s", "timeout_s": 3300},
        "assumptions": RUN_ASSUME + ["events after the run began shutting down are not judged"],
    },
    "C07": {
        "test": "TestC07", "binary": "plain", "level": "exploration",
        "rule": "rapid-generated programs with faulting leaves (omitted optional referenced, list index out of range, stringToInt of non-numbers, "
                "integer / and % by 0..2, arithmetic and functions on plugin integers, references into crashed.error / deploy_failed.error; the same "
                "computed expressions also under !wait-optional tags) and "
                "misbehaving steps (crash, schema-violating output, undeclared output id, schema mismatch, write-refusing connection); each case runs "
                "in a worker process; oracle = the worker neither dies nor reports a recovered panic and answers; a returned output must not be one "
                "whose expression the reference evaluates to a fault. One case in 40 is a burst: a loop of 32-64 items that all fail at once under "
                "a parallelism of 8-32. non-trivial = reference predicts >=1 fault or >=1 misbehaving step",
        "quick": {"cases": 3600, "shards": 12, "shrinktime": "30s"},
        "thorough": {"cases": 80000, "shards": 16, "shrinktime": "120s", "timeout_s": 3300},
        "assumptions": RUN_ASSUME,
    },
    "C08": {
        "test": "TestC08", "binary": "plain", "level": "exploration",
        "rule": "rapid-generated deterministic programs that reference every engine-generated stage output (plugin: deploy_failed.error, "
                "enabling.resolved, starting.started, disabled.output, crashed.error, closed.result; foreach: outputs.success, failed.error, "
                "enabling.resolved) by field and as a whole from step inputs and workflow outputs, with the outcome vector that produces each, "
                "incl. failing foreach items (crash, schema-violating output, declared error output of the sub-workflow, undeclared outcome); in half of the "
                "cases every output additionally carries, wait-optionally, the terminal stage outputs of every step so that their data passes the output "
                "schema; oracle = no returned error contains 'bug:', the returned data unserializes with OutputSchema()[id] "
                "(checked by the harness in the worker, independently of the engine's own check) and equals the reference's expected shape. "
                "non-trivial = the case references an engine-generated output or a foreach step",
        "quick": {"cases": 3600, "shards": 12, "shrinktime": "30s"},
        "thorough": {"cases": 80000, "shards": 16, "shrinktime": "120s", "timeout_s": 3300},
        "assumptions": RUN_ASSUME,
    },
    "C18": {
        "test": "TestC18", "binary": "plain", "level": "exploration", "env": {"VERIF_RLIMIT_AS_MB": "4096"},
        "rule": "for each of the 19 built-in functions, argument lists drawn from the declared parameter schemas (boundary classes: NaN, "
                "+-Inf, +-0, subnormal, +-2^63 neighbourhood, extreme ints, empty / non-ASCII / long strings, decimal strings around the int64 "
                "limits, nested lists and maps) are executed in a worker process under RLIMIT_AS; oracle = no panic / process death, result "
                "validates against Output(parameter types), two calls agree, and the independent laws (floatToInt truncates/saturates/is monotonic, "
                "X->string->X round trips, case/split definitions, ceil/floor/round/abs = math.*, bindConstants pairing; typed bindConstants: argument types derived from generated values of a "
                "family with name collisions (objects with equal ids and different properties, maps with different value types), Output() asked for "
                "exactly those types and the result validated / unserialised against it, the worker keeping its history for 200 cases). "
                "non-trivial = the argument list contains a boundary-class value; distinct = FNV-64 of (law, function, arguments)",
        "quick": {"cases": 36000, "shards": 12, "shrinktime": "20s"},
        "thorough": {"cases": 960000, "shards": 16, "shrinktime": "60s", "timeout_s": 3300},
        "assumptions": ["arguments that do not satisfy the declared parameter schema are outside the property's domain and are not counted",
                        "strings are valid UTF-8 (they reach the functions from YAML or CBOR text)"],
    },
    "C10": {
        "test": "TestC10", "binary": "plain", "level": "exploration",
        "rule": "rapid-generated programs (all tags incl. soft-optional, stop_if, foreach, deploy / enabled / wait_for expressions) are prepared "
                "and the engine's DAG (nodes + typed edges read through ListNodes / OutstandingDependencies / ListInboundConnections) must EQUAL the "
                "graph derived from the text by the reference (both directions); then single-point corruptions of the accepted program (30 kinds: stop_if on a step without cancellation handler, non-numeric closure timeout, ill-typed / unknown fields under optional tags, "
                "a step depending on its own later output (wait_for / input / enabled / under an optional tag), "
                "cycles through input / wait_for / one-of option, renamed step / stage / output / field / input field, stage without outputs, unknown "
                "function, wrong arity, missing required input, ill-typed literals, unknown fields / keys / plugin step, no outputs, bad version) "
                "must each be rejected by Prepare. non-trivial = accepted program with a tag or > 60 edges; every corruption counts",
        "quick": {"cases": 1200, "shards": 12, "shrinktime": "30s"},
        "thorough": {"cases": 20000, "shards": 16, "shrinktime": "120s", "timeout_s": 3300},
        "assumptions": RUN_ASSUME + ["graph rules are those of DESIGN.md appendix C, confirmed against a dump of the engine's DAG"],
    },
    "C16": {
        "test": "TestC16", "binary": "plain", "level": "exploration",
        "rule": "rapid-generated programs are prepared, then prepared again twice, under 3 generated permutations of steps / outputs / input "
                "fields / map keys / one-of options, and under a consistent renaming of all steps; oracle = identical verdict and identical "
                "canonical form (sorted nodes and typed edges, output schemas and namespaces rendered structurally with random inferred ids "
                "removed, names mapped back); and one single-point corruption of the program is prepared four times (once permuted): "
                "the verdict on an invalid text must not change either. non-trivial = >=3 steps or a tag; each (program, transformation) pair counts",
        "quick": {"cases": 900, "shards": 12, "shrinktime": "30s"},
        "thorough": {"cases": 15000, "shards": 16, "shrinktime": "120s", "timeout_s": 3300},
        "assumptions": RUN_ASSUME,
    },
    "C11": {
        "test": "TestC11", "binary": "plain", "level": "exploration",
        "rule": "cases drive engine.New/Parse/Run on real files in a scratch directory: (a) structural corruption of generated valid workflows "
                "(main or sub-workflow file): a generated node position (key or value) x one of 70 operations (67 replacement shapes incl. self-containing / mutually containing anchors, alias fan-out, undefined aliases, "
                "non-scalar keys, anchors/aliases, merge keys, every engine tag on every node kind, odd expressions; delete; duplicate; 200-deep "
                "nest); (b) 1-4 byte-level mutations of a valid workflow; (c) random text over a YAML-ish alphabet; (d) file trees of foreach "
                "references (chains, shared, missing, self, mutual, nested directories, .., absolute, empty, garbage, non-string kind/workflow) with "
                "the expected verdict; (e) corrupted / random input documents; (f) further file-tree kinds: a sub-workflow file named like the caller's cache key "
                "(workflow / config / input), a sub-workflow without a success output (four variants, depth 0-1); (g) the text of one `default:` at any "
                "depth replaced by malformed / ill-typed JSON with an input document that makes the schema apply it. oracle = Parse and Run return (value or error) within the watchdog, no "
                "panic, no process death; file trees: accepted iff every referenced file exists and parses. non-trivial = the corrupted text differs "
                "from its seed / is non-empty",
        "quick": {"cases": 6000, "shards": 12, "shrinktime": "30s"},
        "thorough": {"cases": 200000, "shards": 16, "shrinktime": "120s", "timeout_s": 3300, "native_fuzz_s": 240},
        "assumptions": ["the scripted deployer replaces engine.DefaultDeployerRegistry; container deployers are out of scope",
                        "thorough tier only: 240 s of native coverage-guided fuzzing (go test -fuzz, FuzzEngineParse: workflow bytes x input bytes through "
                        "engine.New / Parse / Run in process, seeded with the 14 motif workflows and the hostile YAML shapes) follow the generated cases; "
                        "Go's fuzzer cannot be pinned to VERIF_SEED, a saved input is confirmed through the check's own oracle before it counts"],
    },
    "C19": {
        "test": "TestC19", "binary": "plain", "level": "exploration",
        "rule": "generated input schemas (1-5 fields: int/string with bounds, bool, float, list, map, nested objects two levels deep, optional "
                "fields with defaults) with documents that are valid (optionals omitted, values given typed or - via the YAML decoding path of "
                "engine.Workflow.Run - as strings) or invalid by exactly one mutation (missing required, wrong type, bound violation, unknown field, "
                "nested wrong type / unknown field); programs whose 1-4 steps and output consume the fields; 0-3 other valid documents are executed on the same prepared workflow "
                "before the observed run. Field types include pattern and enum; a document may be no map at all (schemas with several fields); input "
                "references also sit behind !wait-optional / !soft-optional. oracle: invalid => Execute errors and "
                "the scripted deployer saw no run-phase activity at all; valid => every logged plugin input and the returned output equal the "
                "harness's own normalisation of the document. non-trivial = invalid document, or schema with a default or nested object",
        "quick": {"cases": 3600, "shards": 12, "shrinktime": "30s"},
        "thorough": {"cases": 80000, "shards": 16, "shrinktime": "120s", "timeout_s": 3300},
        "assumptions": RUN_ASSUME + ["bounded strings are ASCII (the schema library counts bytes)", "an object with a single property accepts that property's value in its place (schema library feature), such mutations are not used"],
    },
    "C05": {
        "test": "TestC05", "binary": "plain", "level": "fault_enumeration",
        "rule": "rapid-generated programs (racy profile: never-ending steps, stop_if, soft-optional, foreach with failing items, generated reactions "
                "to cancellation and closure timeouts) are driven down every exit path: natural end with an output or an error, caller cancellation "
                "placed by a trigger on a generated instant of a generated step's life (before anything, after N ms, at/after deploy-begin with the "
                "deployment held - also for 30 s, which the context-honouring scripted deployer only leaves when cancelled -, at exec-start, at exec-end), "
                "natural runs in which a step force-closes itself as the run ends (stop_if + ignored cancel signal + closure timeout 0-40 ms + a "
                "deployment that takes 30-200 ms to go away), failure of the launch of a later step (harness step kind vstartfail), and failing "
                "schema probes during Prepare (deploy failure, write-refusing connection). oracle, read immediately when Execute / Prepare returns: "
                "deployments == connection closes for that phase, no plugin execution in progress, and no goroutine with engine / pluginsdk / vplug "
                "frames still alive after polling <= 2 s. non-trivial = a deployment or execution was live when the run decided to end",
        "quick": {"cases": 1500, "shards": 12, "shrinktime": "30s"},
        "thorough": {"cases": 25000, "shards": 16, "shrinktime": "120s", "timeout_s": 3300},
        "assumptions": RUN_ASSUME + ["goroutines are attributed by stack frames; a goroutine that needs more than 2 s to finish after return is reported as leaked"],
    },
    "C06": {
        "test": "TestC06", "binary": "plain", "level": "fault_enumeration",
        "rule": "rapid-generated programs (never-ending steps, foreach with items in flight, steps with and without cancel-signal handler, generated "
                "closure_wait_timeout 0 or 20-300 ms, deployments that take 5-80 ms to go away, a deployment held longer than the bound, and reaction to the signal: answer at once / after d ms / ignore) with the caller's context cancelled "
                "by a trigger at a generated instant of a generated step's life (before anything, after N ms, on deploy-begin, while the deployment is "
                "held, on exec-start, on exec-end, exec-start + N ms). oracle: return within 5 s x (1 + nesting) + sum of closure timeouts + 2 s after "
                "the cancellation; every execution that started has ended, never-ending ones only after a logged cancel signal / closed connection; "
                "deploy/close balance and no leaked goroutine; a returned output's plugin-produced values equal what the producing steps logged as "
                "emitted. non-trivial = >=1 deployment in flight when the cancellation fired",
        "quick": {"cases": 900, "shards": 12, "shrinktime": "40s"},
        "thorough": {"cases": 15000, "shards": 16, "shrinktime": "180s", "timeout_s": 3300},
        "assumptions": RUN_ASSUME + ["engine-generated stage outputs in a returned output are not judged: whether they exist depends on the instant a step was closed",
                                     "'is sent the cancel signal' is decided up to 'cancel signal or closed connection': the close-down after a cancelled caller closes the connection concurrently with the signal (seeded change M95 is inside that tolerance, DESIGN 13.5)"],
    },
    "C13": {
        "test": "TestC13", "binary": "sched", "level": "exploration",
        "rule": "generated loops: item lists of length 0, 1-12 or 20-40, parallelism 1-8 (literal, from the workflow input, or the default), "
                "sub-workflows of four shapes (single step, two-step chain, two declared outputs success/error, nested loop), per-item outcome "
                "(success / crash / schema-violating output / declared error output) and duration (items finish out of order), items gated on the "
                "concurrency level so that min(parallelism, n) items must overlap, in a quarter of the cases a cancellation while items are in "
                "flight, and in a third a delay (2-25 ms; all hits, the first k, or the k-th) at one schedule point of the loop provider's item "
                "handling. oracle: concurrent-execution high-water mark of the loop's plugin <= parallelism (and == min(parallelism, n) when overlap is "
                "forced); result equals the reference (success: list of per-item reference outputs in item order; failure: exactly the failing "
                "indexes with a message each, and the others' results); cancelled loops: error, or a consistent partition of the items. "
                "non-trivial = >=2 items, a failing item, or parallelism < n",
        "quick": {"cases": 1800, "shards": 12, "shrinktime": "30s"},
        "thorough": {"cases": 30000, "shards": 16, "shrinktime": "120s", "timeout_s": 3300},
        "assumptions": RUN_ASSUME,
    },
    "C15": {
        "test": "TestC15", "binary": "sched", "level": "exploration",
        "rule": "tag-heavy generated programs: trees of !wait-optional / !soft-optional / !oneof / !ordisabled placed in step `any` inputs and "
                "workflow outputs, nested in maps and lists, several per object, one-of options that themselves contain tags; sources with every "
                "outcome (success / error / alt / crash / schema-violating output / disabled / deployment failure) and generated delays; in a third of "
                "the cases the soft-optional motif (the source can finish only after the consumer started); in a twelfth the cancellation motif (an output "
                "made of wait-optional fields, the caller cancels while a source is busy: once every source is over the output must be delivered, an "
                "'execution aborted' error after the grace period is a violation). oracle: logged consumer inputs and the "
                "returned output equal the reference (wait-optional present iff produced, soft-optional absent-or-equal, one-of = data of a produced "
                "option + discriminator, or-disabled = result or disabled message); a wait-optional consumer starts only after its source's "
                "execution ended; in the motif the consumer starts before the source ends. non-trivial = a tag whose source did not succeed, "
                "several tags in one object, or the motif",
        "quick": {"cases": 3600, "shards": 12, "shrinktime": "30s"},
        "thorough": {"cases": 80000, "shards": 16, "shrinktime": "120s", "timeout_s": 3300},
        "assumptions": RUN_ASSUME + ["events after the run began shutting down are not judged"],
    },
    "C14": {
        "test": "TestC14", "binary": "sched", "level": "exploration",
        "rule": "generated histories over ONE prepared workflow (and a twin prepared from the same text): 1-4 rounds, each a single run or 2-6 "
                "runs started together (start offsets 0-5 ms) with equal or different inputs, some on the twin, some cancelled after 1-30 ms, some "
                "failing because their run-specific script makes steps fail or because an expression (stringToInt of the input string, index into the "
                "input list, division by the input integer - also as an output field) fails for that run's input only; optionally the text is prepared again between rounds. Plugin keys carry "
                "the run key, so every run has its own behaviours and its own slice of the plugin log. oracle: every uncancelled run returns what "
                "the reference predicts for an isolated first run with its input; its slice of the log satisfies C02's dataflow check (no foreign or "
                "stale data); the DAG dumps of both prepared workflows are unchanged after all runs. A third of the histories "
                "runs under 1-2 held schedule points (half of them where a run evaluates expressions); a sixth is the motif 'one-of resolved through different "
                "alternatives in overlapping runs' with every evaluation stretched by 3-10 ms; an eighth is the motif 'loop whose parallelism is the run's input' "
                "(no run may execute more items at once than its own bound); in a third of the histories every preparation comes from one parsed object and one executor. non-trivial = two runs overlap in time or a "
                "run follows a failed / cancelled one",
        "quick": {"cases": 720, "shards": 12, "shrinktime": "40s"},
        "thorough": {"cases": 12000, "shards": 16, "shrinktime": "180s", "timeout_s": 3300},
        "assumptions": RUN_ASSUME + ["cancelled runs are only required to return (their result is C06's subject)"],
    },
    "C09": {
        "test": "TestC09", "binary": "sched", "level": "exploration", "enumerative": True, "exhaustive_in": "both",
        "rule": "(1) single-site sweep: for every schedule point the instrumenter inserts into workflow.go and the two providers (lock, unlock, "
                "channel send / receive, select and wake-up, wait-group, cancel, goroutine start, entry of every run-loop / running-step method; "
                "~285 sites) a delay longer than the fallback detector's 3 x 10 ms window - 60 ms on the first 3 passes, 60 ms on the last pass (sites "
                "passed more than 3 times) and 40 ms on every pass (4-12 passes); pairs whose motif never passes the site are skipped - on each of 18 canonical "
                "workflows whose meaning fixes one result (single, chain, join of two steps finishing 5 ms apart, wait_for, enabled from upstream, deploy expression, diamond, failing "
                "prerequisite, crash, deploy failure, disabled + or-disabled, one-of consumer, wait-optional with failing source, foreach, foreach next to five plugin steps, five loops fed while the result is returned, a loop waiting for its enabled value closed beside finishing siblings, nested "
                "foreach); both tiers visit all sites (exhaustive over sites x motifs x delay variants); the tiers differ in the number of random plans. (2) rapid: random deterministic "
                "single-output programs under random plans of 1-6 sites with 1-40 ms delays. oracle: the result equals the reference (in "
                "particular never 'no steps running' when the result is producible); a run that blocks for ever, or a process that dies, under a plan is a violation. non-trivial = the planned site was hit in the run; distinct "
                "= FNV-64 of (program, plan)",
        "quick": {"cases": 240, "shards": 16, "shrinktime": "30s", "timeout_s": 900},
        "thorough": {"cases": 3200, "shards": 16, "shrinktime": "120s", "timeout_s": 3300},
        "assumptions": RUN_ASSUME + ["schedule points are source-level; preemption inside a statement or inside library code is not explored",
                                     "the three sites of open finding K6r are excluded from the sweep and counted"],
    },
    "C12": {
        "test": "TestC12", "binary": "sched", "level": "exploration",
        "rule": "model-based histories against RunnableStep.Start of the real plugin provider (scripted deployer): rounds of 1-2 concurrently "
                "started environment actions - provide deploy input (none / valid / invalid), enabled (true / false), starting input (valid / "
                "invalid / nil), stop condition, any of them again, Close, ForceClose, release the held deployment, release the held plugin - over "
                "generated environments (deployment held / failing / schema mismatch / write-refusing; plugin result success / error / crash / bad "
                "output / undeclared output / never-ending, reacting to cancel at once / late / never; with and without signal handler), usually "
                "starting with the inputs that advance the step, optional quiescence between rounds, and in half of the cases a random delay plan "
                "on the provider's schedule points. invariants after every round and at the end: each stage finished at most once and never both "
                "finished and impossible, every (stage, output) declared by Lifecycle(), exactly one completion, State()==finished after close, "
                "Close/ForceClose return and are idempotent, no notification begins after the first Close returned, second provision refused, "
                "invalid starting input refused, every ProvideStageInput returns within 1 s, deployments == closes, no goroutine left. "
                "non-trivial = a concurrent round, or a close in a history where the plugin is also released",
        "quick": {"cases": 960, "shards": 16, "shrinktime": "30s", "timeout_s": 1200},
        "thorough": {"cases": 24000, "shards": 16, "shrinktime": "120s", "timeout_s": 3300},
        "assumptions": ["a stop condition is only provided to steps whose plugin step has a cancel-signal handler (the lifecycle schema disables stop_if otherwise and Prepare rejects such workflows)",
                        "a panic of the SDK's plugin-side ATP server (send on closed channel) is a harness artefact and discards the case"],
    },
    "C17": {
        "test": "TestC17", "binary": "sched-race", "level": "exploration",
        "rule": "the generators of the concurrency-heavy checks are run in a binary built with the Go race detector (and schedule points): exit-path "
                "cases of C05/C06 (cancellation at generated instants, launch / probe failures), loops of C13, run histories of C14 (overlapping "
                "runs, twin, re-preparation) preceded by 0-4 concurrent preparations of the same text, provider histories of C12 with delay plans, and pairs of C09's sweep (a canonical workflow with one schedule "
                "point it passes held for 40-60 ms); before the random part, systematically: the motifs join and foreach-3 with every schedule point they pass held 40 ms on every pass (8 attempts at run-loop points of join). oracle: a race report counts when, for one of the two racing accesses, the first frame outside the Go standard library is a "
                "source file of the repository; reports with an access on a plugin-side goroutine (SDK ATP server, scripted plugin) are ignored "
                "because that code is in another process in reality. non-trivial = the case has overlapping engine activity (>= 2 steps, a loop, "
                "overlapping runs or preparations, a concurrent provider round)",
        "quick": {"cases": 416, "shards": 16, "shrinktime": "20s", "timeout_s": 1500},
        "thorough": {"cases": 8000, "shards": 16, "shrinktime": "60s", "timeout_s": 3300},
        "assumptions": ["dynamic oracle: silence means no race on the explored executions only",
                        "races whose both accesses are owned by third-party code (pluginsdk schema caches, the SDK's global schema objects) are not attributed to the engine"],
    },
    "C20": {
        "test": "TestC20", "binary": "plain", "level": "exploration", "needs_main_binary": True,
        "rule": "generated workflow trees written to a scratch directory: nesting depth 1-3 of foreach references, sub-workflows in "
                "sub-directories, a second loop sharing the leaf file, four declared outputs whose ids are a generated permutation of success / "
                "error / other / failure and of which the scripted outcome of a decider step (success / error output / alt / crash) selects one, "
                "optionally an explicit outputSchema with generated error flags. Each tree is run through six configurations (Parse+Run with "
                "an absolute context, RunWorkflow, relative context with the working directory elsewhere or inside the context, in-memory file "
                "cache with and without the sub-workflows preloaded), through direct Executor.Prepare+Execute of the same texts, and through "
                "cmd/arcaflow's runWorkflow (worker built from package main); further variants: the working directory changes after the context was "
                "loaded, and the engine object first parses and runs another tree with the same file names. oracle: all give the same output id / data / failure, equal to the "
                "reference; outputIsError == declared flag (explicit schema) or id == \"error\" (inferred); exit code 0 / 2 / 3 as documented. "
                "non-trivial = depth >= 2, an output named error, or an explicit schema",
        "quick": {"cases": 480, "shards": 12, "shrinktime": "30s"},
        "thorough": {"cases": 8000, "shards": 16, "shrinktime": "120s", "timeout_s": 3300},
        "assumptions": ["engine.DefaultDeployerRegistry is reassigned to the scripted deployer (the variable is exported for that purpose)",
                        "config loading from a file (config.Load) is not varied"],
    },
}

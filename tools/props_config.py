"""Per-property configuration of the driver."""

RUN_ASSUME = [
    "the scripted plugin/deployer (harness/vplug) speaks real ATP over in-process pipes; container deployers are out of scope",
    "the reference model (harness/vcase/ref.go) states the declarative meaning; it shares no code with the engine",
]

PROPS = {
    "C03": {
        "test": "TestC03", "binary": "plain", "level": "exploration",
        "rule": "rapid-generated workflow programs (deterministic profile: 1-7 steps, plugin+foreach, tags, 1-4 outputs, "
                "all scripted outcome vectors, delays) run against the engine; oracle = reference result set. "
                "non-trivial = >=2 declared outputs or >=1 failing step/deployment; distinct = FNV-64 of the case JSON",
        "quick": {"cases": 1200, "shards": 12, "shrinktime": "30s"},
        "thorough": {"cases": 20000, "shards": 16, "shrinktime": "120s", "timeout_s": 3000},
        "assumptions": RUN_ASSUME,
    },
}

//go:build verif

package vplug

import (
	"context"
	"fmt"
	"reflect"
	"strings"
	"time"

	"go.flow.arcalot.io/pluginsdk/plugin"
	"go.flow.arcalot.io/pluginsdk/schema"
)

// stepData is shared between a running plugin step and its signal handlers.
type stepData struct {
	cancel chan struct{}
}

func opt(t schema.Type) *schema.PropertySchema {
	return schema.NewPropertySchema(t, nil, false, nil, nil, nil, nil, nil)
}

func req(t schema.Type) *schema.PropertySchema {
	return schema.NewPropertySchema(t, nil, true, nil, nil, nil, nil, nil)
}

func intT() schema.Type    { return schema.NewIntSchema(nil, nil, nil) }
func strT() schema.Type    { return schema.NewStringSchema(nil, nil, nil) }
func boolT() schema.Type   { return schema.NewBoolSchema() }
func floatT() schema.Type  { return schema.NewFloatSchema(nil, nil, nil) }
func listInt() schema.Type { return schema.NewListSchema(intT(), nil, nil) }

func inputScope() *schema.ScopeSchema {
	return schema.NewScopeSchema(
		schema.NewObjectSchema("VIn", map[string]*schema.PropertySchema{
			"key":  req(strT()),
			"a":    opt(intT()),
			"b":    opt(strT()),
			"c":    opt(boolT()),
			"f":    opt(floatT()),
			"l":    opt(listInt()),
			"opt1": opt(intT()),
			"opt2": opt(strT()),
			"o":    opt(schema.NewRefSchema("VSub", nil)),
			"any":  opt(schema.NewAnySchema()),
			"any2": opt(schema.NewAnySchema()),
		}),
		schema.NewObjectSchema("VSub", map[string]*schema.PropertySchema{
			"x": opt(intT()),
			"y": opt(strT()),
		}),
	)
}

func successScope() *schema.ScopeSchema {
	return schema.NewScopeSchema(
		schema.NewObjectSchema("VSuccess", map[string]*schema.PropertySchema{
			"v":   req(intT()),
			"s":   req(strT()),
			"ok":  req(boolT()),
			"l":   req(listInt()),
			"opt": opt(intT()),
		}),
	)
}

func errorScope() *schema.ScopeSchema {
	return schema.NewScopeSchema(
		schema.NewObjectSchema("VError", map[string]*schema.PropertySchema{
			"msg": req(strT()),
		}),
	)
}

func altScope() *schema.ScopeSchema {
	return schema.NewScopeSchema(
		schema.NewObjectSchema("VAlt", map[string]*schema.PropertySchema{
			"v": req(intT()),
		}),
	)
}

func outputs() map[string]*schema.StepOutputSchema {
	return map[string]*schema.StepOutputSchema{
		"success": schema.NewStepOutputSchema(successScope(), nil, false),
		"error":   schema.NewStepOutputSchema(errorScope(), nil, true),
		"alt":     schema.NewStepOutputSchema(altScope(), nil, false),
	}
}

func asInt(v any) int64 {
	switch x := v.(type) {
	case int64:
		return x
	case int:
		return int64(x)
	case uint64:
		return int64(x)
	}
	return 0
}

// SuccessData is the fixed function from a received input to the success output data.
// The reference model in the parent implements the same function independently (vref).
func SuccessData(in map[string]any) map[string]any {
	a := asInt(in["a"])
	var l []any
	if rv := reflect.ValueOf(in["l"]); rv.IsValid() && rv.Kind() == reflect.Slice {
		for i := 0; i < rv.Len(); i++ {
			l = append(l, rv.Index(i).Interface())
		}
	}
	b, _ := in["b"].(string)
	c, _ := in["c"].(bool)
	key, _ := in["key"].(string)
	out := map[string]any{
		"v":  2*a + int64(len(l)) + 1,
		"s":  key + ":" + b,
		"ok": !c,
		"l":  append(append([]any{}, l...), a),
	}
	if o, ok := in["opt1"]; ok && o != nil {
		out["opt"] = asInt(o)
	}
	return out
}

// ErrorData is the error output for an input.
func ErrorData(in map[string]any) map[string]any {
	b, _ := in["b"].(string)
	key, _ := in["key"].(string)
	return map[string]any{"msg": "err:" + key + ":" + b}
}

// AltData is the alt output for an input.
func AltData(in map[string]any) map[string]any {
	return map[string]any{"v": asInt(in["a"]) - 1}
}

func (w *World) handler(ctx context.Context, sd *stepData, in map[string]any, group string) (string, any) {
	key, _ := in["key"].(string)
	b := w.behaviour(key)
	if i := strings.LastIndexByte(key, '#'); i >= 0 {
		group = key[:i]
	} else {
		group = key
	}
	w.LiveExec.Add(1)
	w.enter(group)
	w.Log("exec-start", key, copyJSONable(in))
	outID, outData := w.execute(ctx, sd, in, key, b)
	w.leave(group)
	w.LiveExec.Add(-1)
	w.Log("exec-end", key, map[string]any{"output_id": outID, "data": copyJSONable(outData)})
	if b.Outcome == "crash" && outID == "__crash__" {
		panic("scripted crash of " + key)
	}
	return outID, outData
}

func (w *World) execute(ctx context.Context, sd *stepData, in map[string]any, key string, b Behaviour) (string, any) {
	var cancelCh <-chan struct{}
	if sd != nil {
		cancelCh = sd.cancel
	} else {
		cancelCh = make(chan struct{})
	}
	cancelled := false
	onStop := func(idx int) (string, any, bool) {
		switch idx {
		case 0: // cancel signal
			w.Log("signal", key, nil)
			cancelled = true
			if b.OnCancel == "ignore" {
				cancelCh = make(chan struct{}) // never fires again
				return "", nil, false
			}
			sleepCtx(time.Duration(b.CancelDelayMs)*time.Millisecond, ctx.Done())
			return "alt", AltData(in), true
		case 1: // context done: the connection is being closed
			w.Log("ctx-done", key, nil)
			return "alt", AltData(in), true
		}
		return "", nil, false
	}
	// delay
	remaining := time.Duration(b.DelayMs) * time.Millisecond
	deadline := time.Now().Add(remaining)
	for {
		idx := sleepCtx(time.Until(deadline), cancelCh, ctx.Done())
		if idx < 0 {
			break
		}
		if id, data, done := onStop(idx); done {
			return id, data
		}
	}
	// gate
	if b.Gate != "" {
		gateCtx := ctx
		if b.GateTimeoutMs > 0 {
			var cancelGate context.CancelFunc
			gateCtx, cancelGate = context.WithTimeout(ctx, time.Duration(b.GateTimeoutMs)*time.Millisecond)
			defer cancelGate()
		}
		for {
			idx := w.WaitFor(b.Gate, cancelCh, gateCtx.Done())
			if idx < 0 {
				break
			}
			if idx == 1 && ctx.Err() == nil {
				w.Log("gate-timeout", key, nil)
				break
			}
			if id, data, done := onStop(idx); done {
				return id, data
			}
		}
	}
	if b.AfterGateMs > 0 {
		deadline := time.Now().Add(time.Duration(b.AfterGateMs) * time.Millisecond)
		for {
			idx := sleepCtx(time.Until(deadline), cancelCh, ctx.Done())
			if idx < 0 {
				break
			}
			if id, data, done := onStop(idx); done {
				return id, data
			}
		}
	}
	_ = cancelled
	switch b.Outcome {
	case "crash", "bad_output", "undeclared":
		// The plugin-side ATP server of the SDK panics ("send on closed channel") when a step fails
		// after its session has been shut down. That would be a crash of the plugin process, not of
		// the engine; in this harness the plugin lives in the worker process, so avoid it.
		select {
		case <-ctx.Done():
			w.Log("ctx-done", key, nil)
			return "alt", AltData(in)
		default:
		}
	}
	switch b.Outcome {
	case "success", "":
		return "success", SuccessData(in)
	case "error":
		return "error", ErrorData(in)
	case "alt":
		return "alt", AltData(in)
	case "crash":
		return "__crash__", nil
	case "bad_output":
		return "success", map[string]any{"v": "not-an-int", "s": 5, "ok": true, "l": []any{}}
	case "undeclared":
		return "nonexistent_output", map[string]any{}
	case "never":
		for {
			idx := waitAny(make(chan struct{}), cancelCh, ctx.Done())
			if id, data, done := onStop(idx); done {
				return id, data
			}
		}
	default:
		panic(fmt.Sprintf("vplug: unknown outcome %q", b.Outcome))
	}
}

// PluginSchema builds the callable schema served by deployed plugins of this world.
// mismatch=true serves a schema without the regular steps.
func (w *World) PluginSchema(mismatch bool) *schema.CallableSchema {
	if mismatch {
		return schema.NewCallableSchema(
			schema.NewCallableStep[map[string]any](
				"other", inputScope(), outputs(), nil,
				func(ctx context.Context, in map[string]any) (string, any) {
					return w.handler(ctx, nil, in, "other")
				},
			),
		)
	}
	cancelHandler := func(_ context.Context, sd *stepData, _ plugin.CancelInput) {
		select {
		case sd.cancel <- struct{}{}:
		default:
		}
	}
	withSignal := func(id string) schema.CallableStep {
		return schema.NewCallableStepWithSignals[*stepData, map[string]any](
			id, inputScope(), outputs(),
			map[string]schema.CallableSignal{
				plugin.CancellationSignalSchema.ID(): schema.NewCallableSignalFromSchema(plugin.CancellationSignalSchema, cancelHandler),
			},
			map[string]*schema.SignalSchema{},
			nil,
			func() *stepData { return &stepData{cancel: make(chan struct{}, 4)} },
			func(ctx context.Context, sd *stepData, in map[string]any) (string, any) {
				return w.handler(ctx, sd, in, id)
			},
		)
	}
	return schema.NewCallableSchema(
		withSignal("op"),
		withSignal("op2"),
		schema.NewCallableStep[map[string]any](
			"op_nc", inputScope(), outputs(), nil,
			func(ctx context.Context, in map[string]any) (string, any) {
				return w.handler(ctx, nil, in, "op_nc")
			},
		),
	)
}

// copyJSONable makes a deep copy with map[string]any / []any / scalars only.
func copyJSONable(v any) any {
	switch x := v.(type) {
	case map[string]any:
		out := make(map[string]any, len(x))
		for k, e := range x {
			out[k] = copyJSONable(e)
		}
		return out
	case map[any]any:
		out := make(map[string]any, len(x))
		for k, e := range x {
			out[fmt.Sprint(k)] = copyJSONable(e)
		}
		return out
	case []any:
		out := make([]any, len(x))
		for i, e := range x {
			out[i] = copyJSONable(e)
		}
		return out
	case uint64:
		return int64(x)
	case int:
		return int64(x)
	default:
		return v
	}
}

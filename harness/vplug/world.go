//go:build verif

// Package vplug is the scripted world the engine talks to under verification:
// a deployer ("vdep", deployment type "v") and a plugin whose behaviour per
// invocation is data (a script), and which logs every observable event.
package vplug

import (
	"context"
	"fmt"
	"sort"
	"sync"
	"sync/atomic"
	"time"
)

// Behaviour scripts one plugin invocation, looked up by the `key` input field.
type Behaviour struct {
	DelayMs int `json:"delay_ms,omitempty"`
	// Gate is an event name ("<kind>:<key>") the invocation waits for before finishing
	// (after the delay). It also ends on cancellation/close.
	Gate string `json:"gate,omitempty"`
	// GateTimeoutMs bounds the wait for the gate (0 = unbounded).
	GateTimeoutMs int `json:"gate_timeout_ms,omitempty"`
	// AfterGateMs is a further delay after the gate opened (or timed out).
	AfterGateMs int `json:"after_gate_ms,omitempty"`
	// Outcome: success | error | alt | crash | bad_output | undeclared | never
	Outcome string `json:"outcome,omitempty"`
	// OnCancel: "alt" (answer alt after CancelDelayMs) | "ignore"
	OnCancel      string `json:"on_cancel,omitempty"`
	CancelDelayMs int    `json:"cancel_delay_ms,omitempty"`
}

// DeployBehaviour scripts the deployments of one plugin source.
type DeployBehaviour struct {
	DelayMs int    `json:"delay_ms,omitempty"`
	Gate    string `json:"gate,omitempty"`
	// FailProbe / FailRun make the deployment fail in the prepare / run phase.
	FailProbe bool `json:"fail_probe,omitempty"`
	FailRun   bool `json:"fail_run,omitempty"`
	// BadWritesProbe hands out a connection that refuses writes during prepare.
	BadWritesProbe bool `json:"bad_writes_probe,omitempty"`
	BadWritesRun   bool `json:"bad_writes_run,omitempty"`
	// MismatchRun serves a different schema (without the step) on run deployments.
	MismatchRun bool `json:"mismatch_run,omitempty"`
	// IgnoreCancel: the run deployment does not honour its context (delay slept in full, the
	// deployment then succeeds), like a deployer that cannot be interrupted.
	IgnoreCancel bool `json:"ignore_cancel,omitempty"`
	// CloseDelayMs makes closing a run deployment take this long.
	CloseDelayMs int `json:"close_delay_ms,omitempty"`
}

// Script is the whole scripted behaviour of one case.
type Script struct {
	Steps   map[string]Behaviour       `json:"steps,omitempty"`
	Deploys map[string]DeployBehaviour `json:"deploys,omitempty"`
}

// Event is one entry of the observation log.
type Event struct {
	Seq     int64  `json:"seq"`
	TUs     int64  `json:"t_us"`
	Kind    string `json:"kind"`
	Key     string `json:"key"`
	Phase   string `json:"phase,omitempty"`
	Payload any    `json:"payload,omitempty"`
}

// World holds script, log and counters for one case.
type World struct {
	mu       sync.Mutex
	script   Script
	events   []Event
	seq      int64
	start    time.Time
	changed  chan struct{}
	seen     map[string]bool
	triggers map[string][]func()
	phase    string

	Deploys      atomic.Int64 // successful deployments handed out
	Closes       atomic.Int64 // Close() calls on handed-out connections (first close only)
	LiveExec     atomic.Int64 // plugin executions currently inside the handler
	conc         map[string]int
	concHigh     map[string]int
	ServerErrors atomic.Int64
}

// NewWorld creates a world with the given script.
func NewWorld(s Script) *World {
	if s.Steps == nil {
		s.Steps = map[string]Behaviour{}
	}
	if s.Deploys == nil {
		s.Deploys = map[string]DeployBehaviour{}
	}
	return &World{
		script:   s,
		start:    time.Now(),
		changed:  make(chan struct{}),
		seen:     map[string]bool{},
		triggers: map[string][]func(){},
		phase:    "prepare",
		conc:     map[string]int{},
		concHigh: map[string]int{},
	}
}

// SetPhase marks subsequent events with the phase ("prepare" or "run").
func (w *World) SetPhase(p string) {
	w.mu.Lock()
	w.phase = p
	w.mu.Unlock()
}

// Phase returns the current phase.
func (w *World) Phase() string {
	w.mu.Lock()
	defer w.mu.Unlock()
	return w.phase
}

// NowUs returns microseconds since the world was created.
func (w *World) NowUs() int64 {
	return time.Since(w.start).Microseconds()
}

// Log appends an event, wakes gate waiters and fires triggers registered for it.
func (w *World) Log(kind, key string, payload any) {
	name := kind + ":" + key
	w.mu.Lock()
	w.seq++
	w.events = append(w.events, Event{Seq: w.seq, TUs: time.Since(w.start).Microseconds(), Kind: kind, Key: key, Phase: w.phase, Payload: payload})
	first := !w.seen[name]
	w.seen[name] = true
	w.seen[w.phase+"/"+name] = true // phase-qualified alias for gates, e.g. "run/deploy-end:vp://x"
	var fire []func()
	if first {
		fire = w.triggers[name]
		delete(w.triggers, name)
	}
	close(w.changed)
	w.changed = make(chan struct{})
	w.mu.Unlock()
	for _, f := range fire {
		f()
	}
}

// OnEvent registers f to run synchronously (on the logging goroutine) the first time the
// named event is logged. If it already happened f runs at once.
func (w *World) OnEvent(name string, f func()) {
	w.mu.Lock()
	if w.seen[name] {
		w.mu.Unlock()
		f()
		return
	}
	w.triggers[name] = append(w.triggers[name], f)
	w.mu.Unlock()
}

// Seen reports whether the named event has been logged.
func (w *World) Seen(name string) bool {
	w.mu.Lock()
	defer w.mu.Unlock()
	return w.seen[name]
}

// WaitFor blocks until the named event was logged or one of the stop channels fires.
// It returns the index of the stop channel that fired, or -1 for the event.
func (w *World) WaitFor(name string, stops ...<-chan struct{}) int {
	for {
		w.mu.Lock()
		if w.seen[name] {
			w.mu.Unlock()
			return -1
		}
		ch := w.changed
		w.mu.Unlock()
		if idx := waitAny(ch, stops...); idx >= 0 {
			return idx
		}
	}
}

func waitAny(ch <-chan struct{}, stops ...<-chan struct{}) int {
	switch len(stops) {
	case 0:
		<-ch
		return -1
	case 1:
		select {
		case <-ch:
			return -1
		case <-stops[0]:
			return 0
		}
	case 2:
		select {
		case <-ch:
			return -1
		case <-stops[0]:
			return 0
		case <-stops[1]:
			return 1
		}
	default:
		panic("waitAny: too many stop channels")
	}
}

// Events returns a copy of the log.
func (w *World) Events() []Event {
	w.mu.Lock()
	defer w.mu.Unlock()
	out := make([]Event, len(w.events))
	copy(out, w.events)
	return out
}

func (w *World) behaviour(key string) Behaviour {
	w.mu.Lock()
	defer w.mu.Unlock()
	b, ok := w.script.Steps[key]
	if !ok {
		return Behaviour{Outcome: "success"}
	}
	if b.Outcome == "" {
		b.Outcome = "success"
	}
	return b
}

func (w *World) deployBehaviour(src string) DeployBehaviour {
	w.mu.Lock()
	defer w.mu.Unlock()
	return w.script.Deploys[src]
}

func (w *World) enter(group string) {
	w.mu.Lock()
	w.conc[group]++
	n := w.conc[group]
	newHigh := n > w.concHigh[group]
	if newHigh {
		w.concHigh[group] = n
	}
	w.mu.Unlock()
	if newHigh {
		// event "conc:<group>#<n>": n executions of the group run at the same time
		w.Log("conc", fmt.Sprintf("%s#%d", group, n), nil)
	}
}

func (w *World) leave(group string) {
	w.mu.Lock()
	w.conc[group]--
	w.mu.Unlock()
}

// ConcurrencyHigh returns the per-group concurrent execution high-water marks.
func (w *World) ConcurrencyHigh() map[string]int {
	w.mu.Lock()
	defer w.mu.Unlock()
	out := map[string]int{}
	for k, v := range w.concHigh {
		out[k] = v
	}
	return out
}

// SortedKeys returns the sorted keys of a map with string keys.
func SortedKeys[V any](m map[string]V) []string {
	keys := make([]string, 0, len(m))
	for k := range m {
		keys = append(keys, k)
	}
	sort.Strings(keys)
	return keys
}

func sleepCtx(d time.Duration, stops ...<-chan struct{}) int {
	if d <= 0 {
		for i, s := range stops {
			select {
			case <-s:
				return i
			default:
			}
		}
		return -1
	}
	t := time.NewTimer(d)
	defer t.Stop()
	switch len(stops) {
	case 0:
		<-t.C
		return -1
	case 1:
		select {
		case <-t.C:
			return -1
		case <-stops[0]:
			return 0
		}
	case 2:
		select {
		case <-t.C:
			return -1
		case <-stops[0]:
			return 0
		case <-stops[1]:
			return 1
		}
	default:
		panic("sleepCtx: too many stop channels")
	}
}

var _ = context.Background
var _ = fmt.Sprint

//go:build verif

package vplug

import (
	"context"
	"errors"
	"fmt"
	"io"
	"sync"
	"time"

	log "go.arcalot.io/log/v2"
	"go.flow.arcalot.io/deployer"
	"go.flow.arcalot.io/pluginsdk/atp"
	"go.flow.arcalot.io/pluginsdk/schema"
)

// DepConfig is the configuration of the scripted deployer.
type DepConfig struct {
	Tag string `json:"tag"`
}

// DeploymentType is the deployment type of the scripted deployer.
const DeploymentType = deployer.DeploymentType("v")

// DeployerName is the name (oneof discriminator value) of the scripted deployer.
const DeployerName = "vdep"

var depSchema = schema.NewTypedScopeSchema[*DepConfig](
	schema.NewStructMappedObjectSchema[*DepConfig](
		"VDepConfig",
		map[string]*schema.PropertySchema{
			"tag": schema.NewPropertySchema(schema.NewStringSchema(nil, nil, nil), nil, false, nil, nil, nil, nil, nil),
		},
	),
)

type factory struct {
	w *World
}

// NewFactory creates the connector factory bound to a world.
func NewFactory(w *World) deployer.ConnectorFactory[*DepConfig] {
	return &factory{w}
}

func (f *factory) Name() string                            { return DeployerName }
func (f *factory) DeploymentType() deployer.DeploymentType { return DeploymentType }
func (f *factory) ConfigurationSchema() *schema.TypedScopeSchema[*DepConfig] {
	return depSchema
}
func (f *factory) Create(config *DepConfig, _ log.Logger) (deployer.Connector, error) {
	return &connector{w: f.w, config: config}, nil
}

type connector struct {
	w      *World
	config *DepConfig
}

type conn struct {
	w         *World
	src       string
	reader    *io.PipeReader
	writer    *io.PipeWriter
	cancel    context.CancelFunc
	wg        *sync.WaitGroup
	badWrites bool
	closeOnce sync.Once
	closeMs   int
}

func (p *conn) Read(buf []byte) (int, error) { return p.reader.Read(buf) }
func (p *conn) Write(buf []byte) (int, error) {
	if p.badWrites {
		return 0, fmt.Errorf("scripted: connection refuses writes")
	}
	return p.writer.Write(buf)
}
func (p *conn) ID() string { return p.src }
func (p *conn) Close() error {
	p.closeOnce.Do(func() {
		if p.closeMs > 0 {
			// a deployment that takes a while to go away: it counts as deployed until then
			p.w.Log("conn-close-begin", p.src, nil)
			time.Sleep(time.Duration(p.closeMs) * time.Millisecond)
		}
		p.w.Closes.Add(1)
		p.w.Log("conn-close", p.src, nil)
	})
	p.cancel()
	rerr := p.reader.Close()
	werr := p.writer.Close()
	if rerr != nil || werr != nil {
		return fmt.Errorf("error while closing pipes (%w)", errors.Join(rerr, werr))
	}
	p.wg.Wait()
	return nil
}

func (c *connector) Deploy(ctx context.Context, src string) (deployer.Plugin, error) {
	w := c.w
	phase := w.Phase()
	b := w.deployBehaviour(src)
	tag := ""
	if c.config != nil {
		tag = c.config.Tag
	}
	w.Log("deploy-begin", src, map[string]any{"tag": tag})
	uninterruptible := b.IgnoreCancel && phase == "run"
	if b.DelayMs > 0 && phase == "run" {
		if uninterruptible {
			time.Sleep(time.Duration(b.DelayMs) * time.Millisecond)
		} else {
			sleepCtx(time.Duration(b.DelayMs)*time.Millisecond, ctx.Done())
		}
	}
	if b.Gate != "" && phase == "run" {
		w.WaitFor(b.Gate, ctx.Done())
	}
	if (phase == "prepare" && b.FailProbe) || (phase == "run" && b.FailRun) {
		w.Log("deploy-fail", src, nil)
		return nil, fmt.Errorf("scripted deployment failure of %s", src)
	}
	if !uninterruptible {
		select {
		case <-ctx.Done():
			w.Log("deploy-fail", src, "context done")
			return nil, fmt.Errorf("deployment of %s aborted: context done", src)
		default:
		}
	}
	stdinSub, stdinWriter := io.Pipe()
	stdoutReader, stdoutSub := io.Pipe()
	pluginCtx, cancel := context.WithCancel(context.Background())
	wg := &sync.WaitGroup{}
	wg.Add(1)
	mismatch := phase == "run" && b.MismatchRun
	sch := w.PluginSchema(mismatch)
	go func() {
		defer wg.Done()
		errs := atp.RunATPServer(pluginCtx, stdinSub, stdoutSub, sch)
		w.ServerErrors.Add(int64(len(errs)))
	}()
	w.Deploys.Add(1)
	w.Log("deploy-end", src, nil)
	return &conn{
		w:         w,
		src:       src,
		reader:    stdoutReader,
		writer:    stdinWriter,
		cancel:    cancel,
		closeMs:   closeDelay(b, phase),
		wg:        wg,
		badWrites: (phase == "prepare" && b.BadWritesProbe) || (phase == "run" && b.BadWritesRun),
	}, nil
}

func closeDelay(b DeployBehaviour, phase string) int {
	if phase == "run" {
		return b.CloseDelayMs
	}
	return 0
}

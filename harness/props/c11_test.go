//go:build verif

package props

import (
	"encoding/base64"
	"encoding/json"
	"fmt"
	"strings"
	"testing"
	"unicode/utf8"

	"go.flow.arcalot.io/engine/internal/verif/vcase"
	"go.flow.arcalot.io/engine/internal/verif/vrun"
	"pgregory.net/rapid"
)

// ParseCase is one C11 case: a file tree, a workflow file name and an input document.
type ParseCase struct {
	Class        string            `json:"class"`
	Desc         string            `json:"desc"`
	Files        map[string]string `json:"files"` // path -> text (may contain arbitrary bytes as Go string)
	WorkflowFile string            `json:"workflow_file"`
	Input        string            `json:"input"`
	// ExpectParse: "ok" | "error" | "" (unknown) — what the file-tree rule demands of Parse.
	ExpectParse string `json:"expect_parse,omitempty"`
	NonTrivial  bool   `json:"non_trivial"`
}

// parseCaseJSON is the wire form: texts that are not valid UTF-8 travel base64-encoded so that a
// saved case replays byte for byte.
type parseCaseJSON struct {
	parseCaseAlias
	FilesB64 map[string]string `json:"files_b64,omitempty"`
	InputB64 string            `json:"input_b64,omitempty"`
}
type parseCaseAlias ParseCase

func (c ParseCase) MarshalJSON() ([]byte, error) {
	w := parseCaseJSON{parseCaseAlias: parseCaseAlias(c)}
	w.Files = map[string]string{}
	for k, v := range c.Files {
		if utf8.ValidString(v) {
			w.Files[k] = v
		} else {
			if w.FilesB64 == nil {
				w.FilesB64 = map[string]string{}
			}
			w.FilesB64[k] = base64.StdEncoding.EncodeToString([]byte(v))
		}
	}
	if !utf8.ValidString(c.Input) {
		w.Input = ""
		w.InputB64 = base64.StdEncoding.EncodeToString([]byte(c.Input))
	}
	return json.Marshal(w)
}

func (c *ParseCase) UnmarshalJSON(b []byte) error {
	var w parseCaseJSON
	if err := json.Unmarshal(b, &w); err != nil {
		return err
	}
	*c = ParseCase(w.parseCaseAlias)
	if c.Files == nil {
		c.Files = map[string]string{}
	}
	for k, v := range w.FilesB64 {
		raw, err := base64.StdEncoding.DecodeString(v)
		if err != nil {
			return err
		}
		c.Files[k] = string(raw)
	}
	if w.InputB64 != "" {
		raw, err := base64.StdEncoding.DecodeString(w.InputB64)
		if err != nil {
			return err
		}
		c.Input = string(raw)
	}
	return nil
}

func (c *ParseCase) request() *vrun.EngineRequest {
	files := map[string]string{}
	for k, v := range c.Files {
		files[k] = base64.StdEncoding.EncodeToString([]byte(v))
	}
	return &vrun.EngineRequest{Files: files, WorkflowFile: c.WorkflowFile, InputB64: base64.StdEncoding.EncodeToString([]byte(c.Input)), Run: true, WatchdogMs: 10000}
}

const c11Alphabet = " \n\t:-{}[]!&*'\"#|>$.,?%@`abcxyz019_~<=\\"

func seedProgram(rt *rapid.T) (*vcase.Case, string) {
	p := prepProfile()
	p.MaxSteps = 3
	p.MaxOutputs = 2
	c := vcase.GenCase(rt, p, "C11")
	return c, vcase.RenderYAML(c.Main)
}

func genParseCase(rt *rapid.T) *ParseCase {
	class := rapid.SampledFrom([]string{"yaml-structure", "yaml-structure", "yaml-structure", "bytes-mutation", "bytes-random", "file-tree", "input-doc", "bad-default"}).Draw(rt, "class")
	pc := &ParseCase{Class: class, Files: map[string]string{}, WorkflowFile: "workflow.yaml", Input: "{}"}
	c, text := seedProgram(rt)
	for name, sub := range c.Subs {
		pc.Files[name] = vcase.RenderYAML(sub)
	}
	inDoc := "{}"
	if len(c.InputDoc) > 0 {
		var sb strings.Builder
		for k, v := range c.InputDoc {
			sb.WriteString(fmt.Sprintf("%s: %v\n", k, toYAMLScalar(v)))
		}
		inDoc = sb.String()
	}
	pc.Input = inDoc
	switch class {
	case "yaml-structure":
		target := "workflow.yaml"
		doc := text
		if len(c.Subs) > 0 && rapid.IntRange(0, 3).Draw(rt, "insub") == 0 {
			names := sortedNames(c.Subs)
			target = names[rapid.IntRange(0, len(names)-1).Draw(rt, "subname")]
			doc = pc.Files[target]
		}
		pos := rapid.IntRange(0, 100000).Draw(rt, "position")
		op := rapid.IntRange(0, vcase.NumYAMLOps()-1).Draw(rt, "op")
		out, desc, ok := vcase.CorruptYAML(doc, pos, op)
		if !ok {
			out, desc = doc, "uncorrupted (operation not applicable)"
		}
		pc.Desc = target + ": " + desc
		pc.NonTrivial = ok && out != doc
		pc.Files["workflow.yaml"] = text
		pc.Files[target] = out
	case "bad-default":
		// the text of one `default:` (of the root object or of a nested / referenced object) is replaced
		// by something that is not valid JSON or not a value of the property's type; the input document
		// supplies the objects but omits optional fields, so that defaults are actually applied
		lines := strings.Split(text, "\n")
		var idx []int
		for i, l := range lines {
			if strings.HasPrefix(strings.TrimSpace(l), "default:") {
				idx = append(idx, i)
			}
		}
		pc.Files["workflow.yaml"] = text
		pc.Desc = "no default in the seed workflow"
		if len(idx) > 0 {
			i := idx[rapid.IntRange(0, len(idx)-1).Draw(rt, "default.which")]
			bad := rapid.SampledFrom([]string{"'{'", "'[1,'", "'tru'", "'\"unterminated'", "'{\"a\": }'", "'nul'", "''", "'[]'", "'{}'", "'\"text\"'", "'1e999'"}).Draw(rt, "default.text")
			lines[i] = lines[i][:strings.Index(lines[i], "default:")] + "default: " + bad
			pc.Files["workflow.yaml"] = strings.Join(lines, "\n")
			pc.Desc = fmt.Sprintf("default at line %d replaced by %s", i+1, bad)
			pc.NonTrivial = true
			// drop the optional fields from the input document, at every depth
			pc.Input = vcase.RenderInputYAML(stripOptional(c.Main.Input, c.InputDoc))
		}
	case "bytes-mutation":
		b := []byte(text)
		n := rapid.IntRange(1, 4).Draw(rt, "nmut")
		for i := 0; i < n && len(b) > 0; i++ {
			at := rapid.IntRange(0, len(b)-1).Draw(rt, fmt.Sprintf("at%d", i))
			switch rapid.IntRange(0, 4).Draw(rt, fmt.Sprintf("kind%d", i)) {
			case 0:
				b[at] = c11Alphabet[rapid.IntRange(0, len(c11Alphabet)-1).Draw(rt, fmt.Sprintf("ch%d", i))]
			case 1:
				b = append(b[:at:at], b[at+1:]...)
			case 2:
				ins := c11Alphabet[rapid.IntRange(0, len(c11Alphabet)-1).Draw(rt, fmt.Sprintf("ch%d", i))]
				b = append(b[:at:at], append([]byte{ins}, b[at:]...)...)
			case 3:
				b = b[:at]
			case 4:
				b[at] = byte(rapid.IntRange(0, 255).Draw(rt, fmt.Sprintf("byte%d", i)))
			}
		}
		pc.Files["workflow.yaml"] = string(b)
		pc.Desc = fmt.Sprintf("%d byte-level mutations of a valid workflow", n)
		pc.NonTrivial = string(b) != text
	case "bytes-random":
		s := rapid.StringOfN(rapid.RuneFrom([]rune(c11Alphabet)), 0, 120, -1).Draw(rt, "text")
		pc.Files["workflow.yaml"] = s
		pc.Desc = "random text over a YAML-ish alphabet"
		pc.NonTrivial = len(s) > 0
	case "input-doc":
		pc.Files["workflow.yaml"] = text
		if rapid.Bool().Draw(rt, "structured") {
			pos := rapid.IntRange(0, 1000).Draw(rt, "position")
			op := rapid.IntRange(0, vcase.NumYAMLOps()-1).Draw(rt, "op")
			out, desc, ok := vcase.CorruptYAML(inDoc, pos, op)
			if ok {
				pc.Input = out
				pc.Desc = "input document: " + desc
			} else {
				pc.Input = strings.TrimPrefix(vcase.YAMLShapes[op%len(vcase.YAMLShapes)], "TEXT:")
				pc.Desc = "input document replaced by shape " + pc.Input
			}
		} else {
			pc.Input = rapid.StringOfN(rapid.RuneFrom([]rune(c11Alphabet)), 0, 60, -1).Draw(rt, "input")
			pc.Desc = "random input document"
		}
		pc.ExpectParse = "ok"
		pc.NonTrivial = true
	case "file-tree":
		genFileTree(rt, pc, text)
	}
	return pc
}

// stripOptional removes the optional fields of a document (recursively): what is left forces the
// schema to fill in its defaults.
func stripOptional(fields []vcase.InField, doc map[string]any) map[string]any {
	out := map[string]any{}
	for _, f := range fields {
		v, ok := doc[f.Name]
		if !ok || !f.Required {
			continue
		}
		if sub, isMap := v.(map[string]any); isMap && f.Type == "obj" {
			out[f.Name] = stripOptional(f.Fields, sub)
		} else {
			out[f.Name] = v
		}
	}
	return out
}

func toYAMLScalar(v any) string {
	switch x := v.(type) {
	case string:
		return fmt.Sprintf("%q", x)
	case []any:
		parts := make([]string, len(x))
		for i, e := range x {
			parts[i] = fmt.Sprint(e)
		}
		return "[" + strings.Join(parts, ", ") + "]"
	}
	return fmt.Sprint(v)
}

func sortedNames(m map[string]*vcase.Program) []string {
	var out []string
	for k := range m {
		out = append(out, k)
	}
	for i := range out {
		for j := i + 1; j < len(out); j++ {
			if out[j] < out[i] {
				out[i], out[j] = out[j], out[i]
			}
		}
	}
	return out
}

const subTemplate = `version: v0.2.0
input:
  root: RootObject
  objects:
    RootObject:
      id: RootObject
      properties:
        k: {type: {type_id: string}}
steps:
%s
outputs:
  success:
    r: %s
`

func loopStep(id, file string) string {
	return fmt.Sprintf("  %s:\n    kind: foreach\n    workflow: %s\n    items: []\n", id, file)
}

func pluginStep(id string) string {
	return fmt.Sprintf("  %s:\n    plugin: {src: \"vp://%s\", deployment_type: v}\n    step: op\n    input: {key: !expr $.input.k}\n", id, id)
}

// genFileTree builds trees of workflows referencing each other through foreach steps.
func genFileTree(rt *rapid.T, pc *ParseCase, _ string) {
	kind := rapid.SampledFrom([]string{"chain-ok", "missing", "self", "mutual", "nested-dir", "non-string-kind", "non-string-workflow", "absolute-missing", "dotdot", "shared", "empty-sub", "garbage-sub", "key-collision", "sub-without-success"}).Draw(rt, "treekind")
	mainT := func(steps string) string {
		return strings.Replace(fmt.Sprintf(subTemplate, steps, "done"), "k: {type: {type_id: string}}", "k: {type: {type_id: string}, required: false}", 1)
	}
	leaf := fmt.Sprintf(subTemplate, pluginStep("w"), "!expr $.steps.w.outputs.success.s")
	pc.Files = map[string]string{}
	pc.Desc = "file tree: " + kind
	pc.NonTrivial = true
	pc.Input = "{}"
	switch kind {
	case "chain-ok":
		depth := rapid.IntRange(1, 3).Draw(rt, "depth")
		pc.Files["workflow.yaml"] = mainT(loopStep("l", "sub1.yaml"))
		for d := 1; d <= depth; d++ {
			if d == depth {
				pc.Files[fmt.Sprintf("sub%d.yaml", d)] = leaf
			} else {
				pc.Files[fmt.Sprintf("sub%d.yaml", d)] = fmt.Sprintf(subTemplate, loopStep("l", fmt.Sprintf("sub%d.yaml", d+1)), "done")
			}
		}
		pc.ExpectParse = "ok"
	case "shared":
		pc.Files["workflow.yaml"] = mainT(loopStep("l1", "a.yaml") + loopStep("l2", "b.yaml") + loopStep("l3", "leaf.yaml"))
		pc.Files["a.yaml"] = fmt.Sprintf(subTemplate, loopStep("l", "leaf.yaml"), "done")
		pc.Files["b.yaml"] = fmt.Sprintf(subTemplate, loopStep("l", "leaf.yaml"), "done")
		pc.Files["leaf.yaml"] = leaf
		pc.ExpectParse = "ok"
	case "missing":
		depth := rapid.IntRange(0, 2).Draw(rt, "depth")
		pc.Files["workflow.yaml"] = mainT(loopStep("l", "sub0.yaml"))
		for d := 0; d < depth; d++ {
			pc.Files[fmt.Sprintf("sub%d.yaml", d)] = fmt.Sprintf(subTemplate, loopStep("l", fmt.Sprintf("sub%d.yaml", d+1)), "done")
		}
		pc.ExpectParse = "error"
	case "self":
		pc.Files["workflow.yaml"] = mainT(loopStep("l", "workflow.yaml"))
		pc.ExpectParse = "error"
	case "key-collision":
		// a sub-workflow file whose name equals the key under which callers (the CLI, this harness)
		// register the main workflow in the file cache: "workflow", or "config" / "input"
		name := rapid.SampledFrom([]string{"workflow", "workflow", "config", "input"}).Draw(rt, "collision.name")
		pc.Files["workflow.yaml"] = mainT(loopStep("l", name))
		pc.Files[name] = leaf
		pc.ExpectParse = "" // either a value or an error is fine; it must return
	case "mutual":
		pc.Files["workflow.yaml"] = mainT(loopStep("l", "a.yaml"))
		pc.Files["a.yaml"] = fmt.Sprintf(subTemplate, loopStep("l", "b.yaml"), "done")
		pc.Files["b.yaml"] = fmt.Sprintf(subTemplate, loopStep("l", "a.yaml"), "done")
		pc.ExpectParse = "error"
	case "nested-dir":
		pc.Files["workflow.yaml"] = mainT(loopStep("l", "sub/dir/a.yaml"))
		pc.Files["sub/dir/a.yaml"] = fmt.Sprintf(subTemplate, loopStep("l", "sub/leaf.yaml"), "done")
		pc.Files["sub/leaf.yaml"] = leaf
		pc.ExpectParse = "ok"
	case "non-string-kind":
		pc.Files["workflow.yaml"] = mainT("  l:\n    kind: [foreach]\n    workflow: a.yaml\n    items: []\n")
		pc.ExpectParse = "error"
	case "non-string-workflow":
		pc.Files["workflow.yaml"] = mainT("  l:\n    kind: foreach\n    workflow: {a: b}\n    items: []\n")
		pc.ExpectParse = "error"
	case "absolute-missing":
		pc.Files["workflow.yaml"] = mainT(loopStep("l", "/nonexistent/verif/x.yaml"))
		pc.ExpectParse = "error"
	case "dotdot":
		pc.Files["workflow.yaml"] = mainT(loopStep("l", "sub/../leaf.yaml"))
		pc.Files["leaf.yaml"] = leaf
		pc.ExpectParse = "ok"
	case "empty-sub":
		pc.Files["workflow.yaml"] = mainT(loopStep("l", "a.yaml"))
		pc.Files["a.yaml"] = ""
		pc.ExpectParse = "error"
	case "sub-without-success":
		// a sub-workflow that is fine on its own but has no output named success (renamed, or only
		// another one left; with the current or the legacy `output:` key)
		variant := rapid.SampledFrom([]string{"renamed", "only-error", "two-others", "legacy-output"}).Draw(rt, "nosuccess.variant")
		body := strings.Replace(leaf, "  success:\n", "  done:\n", 1)
		switch variant {
		case "only-error":
			body = strings.Replace(leaf, "  success:\n", "  error:\n", 1)
		case "two-others":
			body = strings.Replace(leaf, "  success:\n", "  done:\n    x: y\n  other:\n", 1)
		case "legacy-output":
			body = strings.Replace(leaf, "outputs:\n  success:\n", "output:\n", 1)
		}
		depth := rapid.IntRange(0, 1).Draw(rt, "nosuccess.depth")
		pc.Files["workflow.yaml"] = mainT(loopStep("l", "a.yaml"))
		if depth == 0 {
			pc.Files["a.yaml"] = body
		} else {
			pc.Files["a.yaml"] = fmt.Sprintf(subTemplate, loopStep("l", "b.yaml"), "done")
			pc.Files["b.yaml"] = body
		}
		pc.ExpectParse = "" // a value (legacy key) or an error; it must return without a panic
	case "garbage-sub":
		pc.Files["workflow.yaml"] = mainT(loopStep("l", "a.yaml"))
		pc.Files["a.yaml"] = rapid.StringOfN(rapid.RuneFrom([]rune(c11Alphabet)), 1, 40, -1).Draw(rt, "garbage")
		pc.ExpectParse = ""
	}
}

func checkParseCase(st *Stats, c *ParseCase) string {
	ans := CallEngine(c.request())
	st.Record(c, c.NonTrivial, []string{"class:" + c.Class, "parse:" + map[bool]string{true: "rejected", false: "accepted"}[ans.ParseErr != ""]})
	switch {
	case ans.ProcessDeath != "":
		return fmt.Sprintf("parsing killed the process (%s): %s", c.Desc, short(ans.ProcessDeath, 900))
	case ans.ParsePanic != "":
		return fmt.Sprintf("Parse panicked (%s): %s", c.Desc, short(ans.ParsePanic, 900))
	case ans.RunPanic != "":
		return fmt.Sprintf("Run panicked (%s): %s", c.Desc, short(ans.RunPanic, 900))
	case ans.Hang != nil:
		if ans.HangPhase == "parse" {
			return fmt.Sprintf("Parse did not return within the watchdog (%s)", c.Desc)
		}
		st.ForeignAnomaly("C01", c)
		return ""
	}
	if c.ExpectParse == "ok" && ans.ParseErr != "" {
		return fmt.Sprintf("a workflow whose referenced files all exist and parse was rejected (%s): %s", c.Desc, short(ans.ParseErr, 400))
	}
	if c.ExpectParse == "error" && ans.ParseErr == "" {
		return fmt.Sprintf("Parse accepted a workflow tree that cannot be loaded (%s)", c.Desc)
	}
	if ans.Deploys != ans.Closes || len(ans.Leaks) > 0 {
		st.ForeignAnomaly("C05", c)
	}
	return ""
}

func TestC11(t *testing.T) {
	runProperty(t, "C11", genParseCase, checkParseCase)
}

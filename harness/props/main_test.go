//go:build verif

package props

import (
	"encoding/json"
	"fmt"
	"os"
	"testing"

	"go.flow.arcalot.io/engine/internal/verif/vplug"
	"go.flow.arcalot.io/engine/internal/verif/vrun"
)

func TestMain(m *testing.M) {
	code := m.Run()
	sharedWorker.stop()
	mainWorker.stop()
	os.Exit(code)
}

// TestWorker is the worker process entry point.
func TestWorker(t *testing.T) {
	if os.Getenv("VERIF_WORKER") != "1" {
		t.Skip("worker entry point")
	}
	workerMain()
}

const smokeWF = `
version: v0.2.0
input:
  root: RootObject
  objects:
    RootObject:
      id: RootObject
      properties:
        i:
          type:
            type_id: integer
steps:
  a:
    plugin: {src: "vp://a", deployment_type: v}
    step: op
    input:
      key: a
      a: !expr $.input.i
  b:
    plugin: {src: "vp://b", deployment_type: v}
    step: op
    input:
      key: b
      a: !expr $.steps.a.outputs.success.v
outputs:
  success:
    r: !expr $.steps.b.outputs.success
`

func TestSmoke(t *testing.T) {
	if os.Getenv("VERIF_SMOKE") == "" {
		t.Skip()
	}
	ans := RunCase(&vrun.Request{Kind: "run", Main: smokeWF, Input: map[string]any{"i": 3},
		Script: vplug.Script{Steps: map[string]vplug.Behaviour{"a": {DelayMs: 5}}}, WantDAG: true, Debug: os.Getenv("VERIF_DEBUG") != ""})
	b, _ := json.MarshalIndent(ans, "", " ")
	fmt.Println(string(b))
}

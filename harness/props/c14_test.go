//go:build verif

package props

import (
	"fmt"
	"sort"
	"strconv"
	"strings"
	"testing"

	"go.flow.arcalot.io/engine/internal/verif/vcase"
	"go.flow.arcalot.io/engine/internal/verif/vplug"
	"go.flow.arcalot.io/engine/internal/verif/vrun"
	"go.flow.arcalot.io/engine/internal/verif/vsched"
	"pgregory.net/rapid"
)

// MultiCase is one C14 history.
type MultiCase struct {
	Base   *vcase.Case      `json:"base"` // multiplexed program; Script holds the per-run behaviours
	Rounds [][]vrun.RunSpec `json:"rounds"`
	// RunScripts: run id -> outcome overrides by original key
	RePrepare bool `json:"re_prepare"`
	// SharedParsed: all preparations come from one parsed object and one executor
	SharedParsed bool `json:"shared_parsed,omitempty"`
	// Plan: schedule points held while the runs overlap (evaluation of one run stretched across another)
	Plan vsched.Plan `json:"plan,omitempty"`
}

func genMultiCase(rt *rapid.T) *MultiCase {
	p := detProfile()
	p.Name = "reruns"
	p.MaxSteps = 4
	p.MaxOutputs = 2
	p.RichInput = false
	// expressions whose evaluation fails for some inputs only (stringToInt of the input string, an
	// index into the input list, a division by the input integer): a failed run must not leave
	// anything behind in the prepared workflow
	p.Faults = true
	c := vcase.GenCase(rt, p, "C14")
	oneofMotif := rapid.IntRange(0, 5).Draw(rt, "oneof-motif?") == 0
	if oneofMotif {
		// overlapping runs whose one-of resolves through different alternatives: in some runs `ma`
		// succeeds early (alternative oa), in the others it fails and `mb` succeeds (alternative ob)
		mk := func(id string) *vcase.Step {
			return &vcase.Step{ID: id, Kind: "plugin", Op: "op", Input: vcase.MapVal([]string{"key"}, []*vcase.Val{vcase.LitVal(vcase.StrLit(id))})}
		}
		src := func(id string) *vcase.Val {
			return vcase.ExprVal(&vcase.Expr{K: "out", Step: id, Stage: "outputs", Output: "success"})
		}
		mc3 := mk("mc")
		mc3.Input.Set("any", &vcase.Val{K: "oneof", Disc: "d", Keys: []string{"oa", "ob"}, Vals: []*vcase.Val{src("ma"), src("mb")}})
		c = &vcase.Case{Prop: "C14", Profile: "motif:oneof-resolved-differently-in-overlapping-runs", Subs: map[string]*vcase.Program{},
			InputDoc: map[string]any{}, Labels: []string{"motif:oneof-resolved-differently-in-overlapping-runs"},
			Main: &vcase.Program{Steps: []*vcase.Step{mk("ma"), mk("mb"), mc3},
				Outputs: []*vcase.Output{{ID: "success", Val: vcase.MapVal([]string{"r"}, []*vcase.Val{vcase.ExprVal(&vcase.Expr{K: "out", Step: "mc", Stage: "outputs", Output: "success", Path: []string{"s"}})})}}}}
		c.Script.Steps = map[string]vplug.Behaviour{"ma": {Outcome: "success"}, "mb": {Outcome: "success"}, "mc": {Outcome: "success"}}
		c.Script.Deploys = map[string]vplug.DeployBehaviour{}
	}
	loopMotif := !oneofMotif && rapid.IntRange(0, 7).Draw(rt, "loop-motif?") == 0
	if loopMotif {
		// a loop whose parallelism is the run's input: every run has its own bound, whatever the
		// bounds of the runs before it or next to it
		items := &vcase.Val{K: "list"}
		base := map[string]vplug.Behaviour{}
		for j := 0; j < 4; j++ {
			k := fmt.Sprintf("loop#%d", j)
			items.Vals = append(items.Vals, vcase.MapVal([]string{"k", "n"}, []*vcase.Val{vcase.LitVal(vcase.StrLit(k)), vcase.LitVal(vcase.IntLit(int64(j)))}))
			base[k] = vplug.Behaviour{Outcome: "success"}
		}
		w := &vcase.Step{ID: "w", Kind: "plugin", Op: "op", Src: "vp://loop_w", Input: vcase.MapVal([]string{"key", "a"}, []*vcase.Val{vcase.ExprVal(&vcase.Expr{K: "in", Field: "k"}), vcase.ExprVal(&vcase.Expr{K: "in", Field: "n"})})}
		sub := &vcase.Program{Input: []vcase.InField{{Name: "k", Type: "string", Required: true}, {Name: "n", Type: "int", Required: true}}, Steps: []*vcase.Step{w},
			Outputs: []*vcase.Output{{ID: "success", Val: vcase.MapVal([]string{"r"}, []*vcase.Val{vcase.ExprVal(&vcase.Expr{K: "out", Step: "w", Stage: "outputs", Output: "success", Path: []string{"v"}})})}}}
		c = &vcase.Case{Prop: "C14", Profile: "motif:loop-parallelism-from-the-input", Subs: map[string]*vcase.Program{"sub.yaml": sub},
			InputDoc: map[string]any{"i": int64(2)}, Labels: []string{"motif:loop-parallelism-from-the-input"},
			Main: &vcase.Program{Input: []vcase.InField{{Name: "i", Type: "int", Required: true}},
				Steps:   []*vcase.Step{{ID: "loop", Kind: "foreach", Workflow: "sub.yaml", Items: items, Parallelism: vcase.ExprVal(&vcase.Expr{K: "in", Field: "i"})}},
				Outputs: []*vcase.Output{{ID: "success", Val: vcase.MapVal([]string{"r"}, []*vcase.Val{vcase.ExprVal(&vcase.Expr{K: "out", Step: "loop", Stage: "outputs", Output: "success"})})}}}}
		c.Script.Steps = base
		c.Script.Deploys = map[string]vplug.DeployBehaviour{}
	}
	// in a quarter of the cases the first output carries a field that evaluates for some inputs only
	if _, hasI := c.InputDoc["i"]; hasI && !loopMotif && len(c.Main.Outputs) > 0 && c.Main.Outputs[0].Val.K == "map" && rapid.IntRange(0, 3).Draw(rt, "output-fault-motif?") == 0 {
		c.Main.Outputs[0].Val.Set("zdiv", vcase.ExprVal(&vcase.Expr{K: "bin", Op: "/", Args: []*vcase.Expr{{K: "lit", Lit: vcase.IntLit(100)}, {K: "in", Field: "i"}}}))
		c.Labels = append(c.Labels, "motif:output-field-divides-by-the-input")
	}
	baseScript := c.Script
	vcase.Multiplex(c.Main, c.Subs)
	mc := &MultiCase{Base: c, RePrepare: rapid.Bool().Draw(rt, "re-prepare"), SharedParsed: rapid.IntRange(0, 2).Draw(rt, "shared-parsed") == 0}
	c.Script = vplug.Script{Steps: map[string]vplug.Behaviour{}, Deploys: baseScript.Deploys}
	nRounds := rapid.IntRange(1, 4).Draw(rt, "rounds")
	runNo := 0
	outcomes := []string{"success", "success", "success", "error", "crash", "alt"}
	for r := 0; r < nRounds; r++ {
		k := 1
		if rapid.Bool().Draw(rt, fmt.Sprintf("round%d.concurrent", r)) {
			k = rapid.IntRange(2, 6).Draw(rt, fmt.Sprintf("round%d.k", r))
		}
		var round []vrun.RunSpec
		sameInput := rapid.Bool().Draw(rt, fmt.Sprintf("round%d.same-input", r))
		for j := 0; j < k; j++ {
			id := fmt.Sprintf("r%d", runNo)
			runNo++
			in := map[string]any{}
			for kk, v := range c.InputDoc {
				in[kk] = v
			}
			if !sameInput || j == 0 {
				if _, ok := in["i"]; ok {
					in["i"] = rapid.Int64Range(-20, 200).Draw(rt, id+".i")
					if rapid.IntRange(0, 3).Draw(rt, id+".i.small?") == 0 {
						in["i"] = rapid.SampledFrom([]int64{0, 0, 1, 2}).Draw(rt, id+".i.small")
					}
				}
				if _, ok := in["l"]; ok {
					n := rapid.IntRange(0, 3).Draw(rt, id+".l.n")
					l := make([]any, n)
					for x := range l {
						l[x] = rapid.Int64Range(0, 9).Draw(rt, fmt.Sprintf("%s.l.%d", id, x))
					}
					in["l"] = l
				}
				if _, ok := in["s"]; ok {
					in["s"] = rapid.SampledFrom([]string{"", "abc", "Q", "12"}).Draw(rt, id+".s")
				}
			} else {
				in["i"], in["s"] = round[0].Input.(map[string]any)["i"], round[0].Input.(map[string]any)["s"]
				if l, ok := round[0].Input.(map[string]any)["l"]; ok {
					in["l"] = l
				}
				if in["i"] == nil {
					delete(in, "i")
				}
				if in["s"] == nil {
					delete(in, "s")
				}
			}
			in["rk"] = id
			spec := vrun.RunSpec{ID: id, Input: in, UseTwin: rapid.IntRange(0, 3).Draw(rt, id+".twin") == 0,
				StartDelayMs: rapid.IntRange(0, 5).Draw(rt, id+".startdelay")}
			if rapid.IntRange(0, 5).Draw(rt, id+".cancel?") == 0 {
				spec.CancelAfterMs = rapid.IntRange(1, 30).Draw(rt, id+".cancelms")
			}
			// per-run behaviours: the base script, with some outcomes changed for this run
			for _, key := range vplug.SortedKeys(baseScript.Steps) {
				b := baseScript.Steps[key]
				if rapid.IntRange(0, 4).Draw(rt, id+"."+key+".change?") == 0 {
					b.Outcome = rapid.SampledFrom(outcomes).Draw(rt, id+"."+key+".outcome")
				}
				b.DelayMs = rapid.IntRange(0, 15).Draw(rt, id+"."+key+".delay")
				c.Script.Steps[id+"/"+key] = b
			}
			if loopMotif {
				spec.CancelAfterMs = 0
				in["i"] = rapid.Int64Range(1, 4).Draw(rt, id+".parallelism")
				for j := 0; j < 4; j++ {
					c.Script.Steps[fmt.Sprintf("%s/loop#%d", id, j)] = vplug.Behaviour{Outcome: "success", DelayMs: rapid.IntRange(15, 30).Draw(rt, fmt.Sprintf("%s.item%d.delay", id, j))}
				}
			}
			if oneofMotif {
				spec.CancelAfterMs = 0
				if rapid.Bool().Draw(rt, id+".via-ob") {
					c.Script.Steps[id+"/ma"] = vplug.Behaviour{Outcome: "error", DelayMs: rapid.IntRange(0, 5).Draw(rt, id+".ma.delay")}
					c.Script.Steps[id+"/mb"] = vplug.Behaviour{Outcome: "success", DelayMs: rapid.IntRange(5, 25).Draw(rt, id+".mb.delay")}
				} else {
					c.Script.Steps[id+"/ma"] = vplug.Behaviour{Outcome: "success", DelayMs: rapid.IntRange(0, 5).Draw(rt, id+".ma.delay")}
					c.Script.Steps[id+"/mb"] = vplug.Behaviour{Outcome: "success", DelayMs: rapid.IntRange(60, 90).Draw(rt, id+".mb.delay")}
				}
				c.Script.Steps[id+"/mc"] = vplug.Behaviour{Outcome: "success"}
			}
			round = append(round, spec)
		}
		mc.Rounds = append(mc.Rounds, round)
	}
	// a third of the histories stretches a schedule point: half of the time one where a run evaluates
	// its expressions (so that another run's evaluation falls into the middle of it)
	if sites := planSites(); len(sites) > 0 && (oneofMotif || rapid.IntRange(0, 2).Draw(rt, "plan?") == 0) {
		var eval []string
		for _, s := range sites {
			if strings.Contains(s, "loopState.resolve") || strings.Contains(s, "loopState.notifySteps") {
				eval = append(eval, s)
			}
		}
		mc.Plan = vsched.Plan{}
		if oneofMotif {
			// stretch every evaluation a little: another run's choice falls into the middle of this run's
			mc.Plan["workflow/workflow.go:loopState.resolveExpressions#0:entry"] = vsched.SitePlan{DelayMs: rapid.IntRange(3, 10).Draw(rt, "plan.oneof.ms")}
		}
		for i, n := 0, rapid.IntRange(1, 2).Draw(rt, "plan.n"); i < n; i++ {
			pool := sites
			if len(eval) > 0 && rapid.Bool().Draw(rt, fmt.Sprintf("plan.eval%d", i)) {
				pool = eval
			}
			site := pool[rapid.IntRange(0, len(pool)-1).Draw(rt, fmt.Sprintf("plan.site%d", i))]
			mc.Plan[site] = vsched.SitePlan{DelayMs: rapid.IntRange(3, 20).Draw(rt, fmt.Sprintf("plan.ms%d", i)), First: rapid.IntRange(0, 4).Draw(rt, fmt.Sprintf("plan.first%d", i))}
		}
	}
	return mc
}

func filterLog(ans *vrun.MultiAnswer, rk string) *vrun.Answer {
	out := &vrun.Answer{}
	for _, e := range ans.Log {
		if strings.HasPrefix(e.Key, rk+"/") || (e.Kind == "shutdown-begin" && e.Key == rk) {
			out.Log = append(out.Log, e)
		}
	}
	return out
}

func checkMultiCase(st *Stats, mc *MultiCase) string {
	c := mc.Base
	req := &vrun.MultiRequest{Main: vcase.RenderYAML(c.Main), Files: map[string]string{}, Script: c.Script, Rounds: mc.Rounds, RePrepareBetween: mc.RePrepare, SharedParsed: mc.SharedParsed, WatchdogMs: 40000, Plan: mc.Plan}
	for name, p := range c.Subs {
		req.Files[name] = vcase.RenderYAML(p)
	}
	ans := CallMulti(req)
	if ans.ProcessDeath != "" {
		owner, _ := anomaly(&vrun.Answer{ProcessDeath: ans.ProcessDeath}) // C07, or the SDK's plugin-side panic
		st.ForeignAnomaly(owner, mc)
		return ""
	}
	if ans.PreparePanic != "" {
		st.ForeignAnomaly("C11", mc)
		return ""
	}
	if ans.PrepareErr != "" {
		return "generated program rejected by Prepare (generator soundness): " + short(ans.PrepareErr, 400)
	}
	if ans.Hang != nil {
		st.ForeignAnomaly("C01", mc)
		return ""
	}
	// non-trivial: two runs overlap in time, or a run follows a failed / cancelled one
	type span struct{ s, e int64 }
	var spans []span
	overlap, afterFailure, sawFailure := false, false, false
	for _, round := range ans.Rounds {
		if sawFailure && len(round) > 0 {
			afterFailure = true
		}
		for _, r := range round {
			spans = append(spans, span{r.TStartUs, r.TEndUs})
			if r.Cancelled || (r.Returned != nil && r.Returned.Err != "") {
				sawFailure = true
			}
		}
	}
	sort.Slice(spans, func(i, j int) bool { return spans[i].s < spans[j].s })
	for i := 1; i < len(spans); i++ {
		if spans[i].s < spans[i-1].e {
			overlap = true
		}
	}
	nRuns := len(spans)
	st.Record(mc, overlap || afterFailure, []string{fmt.Sprintf("runs:%d", min(nRuns, 8)), fmt.Sprintf("overlap:%v", overlap), fmt.Sprintf("after-failure:%v", afterFailure), fmt.Sprintf("re-prepare:%v", mc.RePrepare), fmt.Sprintf("one-parsed-object:%v", mc.SharedParsed)})
	if c.Profile == "motif:loop-parallelism-from-the-input" {
		// event "conc" with key "<run>/loop#<n>": n items of that run's loop executed at the same time
		bound := map[string]int64{}
		for _, round := range mc.Rounds {
			for _, spec := range round {
				bound[spec.ID], _ = spec.Input.(map[string]any)["i"].(int64)
			}
		}
		for _, e := range ans.Log {
			if e.Kind != "conc" {
				continue
			}
			i, k := strings.Index(e.Key, "/loop#"), strings.LastIndexByte(e.Key, '#')
			if i < 0 {
				continue
			}
			n, _ := strconv.Atoi(e.Key[k+1:])
			if b, ok := bound[e.Key[:i]]; ok && b > 0 && int64(n) > b {
				return fmt.Sprintf("run %s executed %d items of its loop at the same time although its parallelism is %d (other runs of the prepared workflow had other bounds)", e.Key[:i], n, b)
			}
		}
	}
	for ri, round := range ans.Rounds {
		for j, r := range round {
			spec := mc.Rounds[ri][j]
			if r.Panic != "" {
				st.ForeignAnomaly("C07", mc)
				return ""
			}
			if r.Returned == nil {
				return fmt.Sprintf("run %s has no result", r.ID)
			}
			if strings.Contains(r.Returned.Err, "bug:") {
				st.ForeignAnomaly("C08", mc)
				return ""
			}
			input, _ := spec.Input.(map[string]any)
			m := vcase.NewModel(c.Main, c.Subs, vcase.NormalizeInput(c.Main, input), c.Script, nil)
			if spec.CancelAfterMs > 0 {
				continue // a cancelled run may end either way (C06)
			}
			if r.Returned.Err != "" && strings.Contains(r.Returned.Err, fallbackText) && len(m.Producible()) > 0 {
				st.ForeignAnomaly("C09", mc)
				continue
			}
			if len(m.Faults) > 0 || m.EagerFaults() {
				// the reference predicts that evaluating some expression fails with this run's input:
				// such a run may end in an error, or in an output whose own expressions evaluate
				st.Label("run-with-evaluation-fault")
				if r.Returned.Err == "" {
					if f := m.OutFault[r.Returned.OutputID]; f != nil {
						return fmt.Sprintf("run %s returned output %q although its expression faults (%s: %s)", r.ID, r.Returned.OutputID, f.Where, f.Reason)
					}
				}
				continue
			}
			if msg := checkResult(c, m, (*returned)(r.Returned)); msg != "" {
				return fmt.Sprintf("run %s (round %d, %d runs in the round) does not return what an isolated first run with its input returns: %s", r.ID, ri, len(round), msg)
			}
			fl := filterLog(ans, r.ID)
			if cut, ok := beforeShutdown(fl); ok {
				if msg, _ := checkDataflow(m, cut); msg != "" {
					return fmt.Sprintf("run %s: a step observed data that is not its own run's: %s", r.ID, msg)
				}
			} else {
				panic("harness failure: no shutdown-begin observation for run " + r.ID)
			}
		}
	}
	if ans.DAGChanged != "" {
		return "running changed the prepared workflow: " + ans.DAGChanged
	}
	if ans.Deploys != ans.Closes || len(ans.Leaks) > 0 {
		st.ForeignAnomaly("C05", mc)
	}
	return ""
}

func TestC14(t *testing.T) {
	runProperty(t, "C14", genMultiCase, checkMultiCase)
}

//go:build verif

package props

import (
	"fmt"
	"math"
	"math/big"
	"strconv"
	"strings"
	"testing"
	"unicode/utf8"

	"go.flow.arcalot.io/engine/internal/verif/vrun"
	"pgregory.net/rapid"
)

// FuncCase is one C18 case.
type FuncCase struct {
	Law      string      `json:"law"` // call | roundtrip-int | roundtrip-float | roundtrip-bool | monotonic-floatToInt
	Fn       string      `json:"fn"`
	Args     []vrun.FArg `json:"args"`
	Boundary bool        `json:"boundary"`
	Excluded int         `json:"excluded,omitempty"`
}

var boundaryFloats = []float64{
	math.NaN(), math.Inf(1), math.Inf(-1), 0, math.Copysign(0, -1), 5e-324, -5e-324, math.MaxFloat64, -math.MaxFloat64,
	9223372036854775807, 9223372036854775808, -9223372036854775808, -9223372036854777856, 9223372036854774784,
	9007199254740992, 4503599627370496, 0.5, -0.5, 1.5, -1.5, 2.5, -2.5, 1e300, -1e300, 9.3e18, -9.3e18, 1.625, 5.0, -1.9, 5.5, 123456789.125,
}

var boundaryInts = []int64{math.MinInt64, math.MaxInt64, 0, 1, -1, math.MaxInt32, math.MinInt32, 1 << 53, (1 << 53) + 1, -(1 << 53) - 1}

var boundaryStrings = []string{"", " ", "abc", "ABC", "ÄÖÜ ß", "İı", "ǅ", "\x00", "a,b,,c", ",", "ﬁ", "日本語", strings.Repeat("x", 300), "e", "0x1p-2", "Inf", "nan", "1e400", "-0", "+5", "1_000"}

func genFloat(t *rapid.T, label string) (float64, bool) {
	if rapid.IntRange(0, 9).Draw(t, label+".class") < 5 {
		return rapid.SampledFrom(boundaryFloats).Draw(t, label+".b"), true
	}
	return rapid.Float64().Draw(t, label), false
}

func genInt(t *rapid.T, label string) (int64, bool) {
	if rapid.IntRange(0, 9).Draw(t, label+".class") < 4 {
		return rapid.SampledFrom(boundaryInts).Draw(t, label+".b"), true
	}
	return rapid.Int64().Draw(t, label), false
}

func genString(t *rapid.T, label string) (string, bool) {
	if rapid.IntRange(0, 9).Draw(t, label+".class") < 5 {
		return rapid.SampledFrom(boundaryStrings).Draw(t, label+".b"), true
	}
	return rapid.String().Draw(t, label), false
}

func genIntString(t *rapid.T, label string) (string, bool) {
	if rapid.IntRange(0, 9).Draw(t, label+".class") < 5 {
		return rapid.SampledFrom([]string{"9223372036854775807", "9223372036854775808", "-9223372036854775808", "-9223372036854775809",
			"007", "-0", "0", "-000", "99999999999999999999999999", "-1", "00000000000000000000000000000000001"}).Draw(t, label+".b"), true
	}
	s := rapid.StringMatching(`-?[0-9]{1,22}`).Draw(t, label)
	return s, false
}

func genAny(t *rapid.T, label string, depth int) vrun.FArg {
	switch rapid.IntRange(0, 6).Draw(t, label+".kind") {
	case 0:
		v, _ := genInt(t, label+".i")
		return vrun.FArg{T: "int", I: v}
	case 1:
		v, _ := genString(t, label+".s")
		return vrun.FArg{T: "string", S: v}
	case 2:
		return vrun.FArg{T: "bool", B: rapid.Bool().Draw(t, label+".b")}
	case 3:
		v, _ := genFloat(t, label+".f")
		return vrun.FloatArg(v)
	case 4:
		if depth > 0 {
			n := rapid.IntRange(0, 3).Draw(t, label+".n")
			l := vrun.FArg{T: "list", L: make([]vrun.FArg, n)}
			for i := range l.L {
				l.L[i] = genAny(t, fmt.Sprintf("%s.%d", label, i), depth-1)
			}
			return l
		}
	case 5:
		if depth > 0 {
			n := rapid.IntRange(0, 3).Draw(t, label+".n")
			m := vrun.FArg{T: "map", M: map[string]vrun.FArg{}}
			for i := 0; i < n; i++ {
				m.M[fmt.Sprintf("k%d", i)] = genAny(t, fmt.Sprintf("%s.k%d", label, i), depth-1)
			}
			return m
		}
	}
	return vrun.FArg{T: "string", S: "leaf"}
}

var allFuncs = []string{"intToFloat", "floatToInt", "intToString", "floatToString", "floatToFormattedString", "boolToString",
	"stringToInt", "stringToFloat", "stringToBool", "ceil", "floor", "round", "abs", "toLower", "toUpper", "splitString",
	"readFile", "getEnvVar", "bindConstants"}

const maxPrecision = 5000 // larger precisions are excluded while finding K10b is open

// genTypedShape draws a value whose derived type (vrun.TypeOfFArg) comes from a family with name
// collisions.
func genTypedShape(t *rapid.T, label string) vrun.FArg {
	leaf := func(l string) vrun.FArg {
		switch rapid.IntRange(0, 2).Draw(t, l+".leaf") {
		case 0:
			return vrun.FArg{T: "int", I: int64(rapid.IntRange(0, 9).Draw(t, l+".i"))}
		case 1:
			return vrun.FArg{T: "string", S: rapid.SampledFrom([]string{"", "a", "xyz"}).Draw(t, l+".s")}
		}
		return vrun.FArg{T: "bool", B: rapid.Bool().Draw(t, l+".b")}
	}
	var shape vrun.FArg
	switch rapid.IntRange(0, 3).Draw(t, label+".shape") {
	case 0: // object: id from {A, B}, one or two properties from {p, q} with leaf types
		m := map[string]vrun.FArg{"$id": {T: "string", S: rapid.SampledFrom([]string{"A", "B"}).Draw(t, label+".id")}}
		m["p"] = leaf(label + ".p")
		if rapid.Bool().Draw(t, label+".q?") {
			m["q"] = leaf(label + ".q")
		}
		shape = vrun.FArg{T: "map", M: m}
	case 1: // map[string]leaf
		shape = vrun.FArg{T: "map", M: map[string]vrun.FArg{"k": leaf(label + ".v")}}
	case 2:
		shape = leaf(label + ".l")
	default:
		shape = vrun.FArg{T: "list", L: []vrun.FArg{leaf(label + ".e")}}
	}
	return shape
}

func genFuncCase(t *rapid.T) *FuncCase {
	c := &FuncCase{Law: "call"}
	switch rapid.IntRange(0, 12).Draw(t, "law") {
	case 4:
		// bindConstants with typed arguments: homogeneous items and a constant whose types are drawn
		// from a small family in which different types share a name (objects with equal ids and
		// different properties, maps with different value types, lists of them)
		c.Law = "typed-bindConstants"
		c.Fn = "bindConstants"
		item := genTypedShape(t, "item")
		n := rapid.IntRange(0, 3).Draw(t, "n")
		l := vrun.FArg{T: "list", L: make([]vrun.FArg, n)}
		for i := range l.L {
			l.L[i] = item
		}
		if n == 0 {
			l.L = []vrun.FArg{item}
		}
		c.Args, c.Boundary = []vrun.FArg{l, genTypedShape(t, "const")}, true
		return c
	case 0:
		c.Law = "roundtrip-int"
		v, b := genInt(t, "v")
		c.Args, c.Boundary = []vrun.FArg{{T: "int", I: v}}, b
		return c
	case 1:
		c.Law = "roundtrip-float"
		v, b := genFloat(t, "v")
		c.Args, c.Boundary = []vrun.FArg{vrun.FloatArg(v)}, b
		return c
	case 2:
		c.Law = "roundtrip-bool"
		c.Args, c.Boundary = []vrun.FArg{{T: "bool", B: rapid.Bool().Draw(t, "v")}}, true
		return c
	case 3:
		c.Law = "monotonic-floatToInt"
		x, b1 := genFloat(t, "x")
		y, b2 := genFloat(t, "y")
		c.Args, c.Boundary = []vrun.FArg{vrun.FloatArg(x), vrun.FloatArg(y)}, b1 || b2
		return c
	}
	c.Fn = rapid.SampledFrom(allFuncs).Draw(t, "fn")
	switch c.Fn {
	case "intToFloat", "intToString":
		v, b := genInt(t, "a0")
		c.Args, c.Boundary = []vrun.FArg{{T: "int", I: v}}, b
	case "floatToInt", "floatToString", "ceil", "floor", "round", "abs":
		v, b := genFloat(t, "a0")
		c.Args, c.Boundary = []vrun.FArg{vrun.FloatArg(v)}, b
	case "floatToFormattedString":
		v, b := genFloat(t, "a0")
		f := rapid.SampledFrom([]string{"b", "e", "E", "f", "g", "G", "x", "X"}).Draw(t, "a1")
		var prec int64
		switch rapid.IntRange(0, 3).Draw(t, "a2.class") {
		case 0:
			prec = rapid.SampledFrom([]int64{-1, 0, 1, 15, 17, 100, 400, 1100, maxPrecision, -2, math.MinInt64}).Draw(t, "a2.b")
			b = true
		case 1:
			prec = rapid.Int64Range(-5, 60).Draw(t, "a2")
		case 2:
			prec = rapid.Int64Range(60, maxPrecision).Draw(t, "a2")
		case 3:
			// the declared parameter type is an unbounded integer; huge values are excluded (K10b)
			c.Excluded = 1
			prec = rapid.Int64Range(-1, 30).Draw(t, "a2")
		}
		c.Args, c.Boundary = []vrun.FArg{vrun.FloatArg(v), {T: "string", S: f}, {T: "int", I: prec}}, b
	case "boolToString":
		c.Args, c.Boundary = []vrun.FArg{{T: "bool", B: rapid.Bool().Draw(t, "a0")}}, true
	case "stringToInt":
		v, b := genIntString(t, "a0")
		c.Args, c.Boundary = []vrun.FArg{{T: "string", S: v}}, b
	case "stringToFloat":
		var s string
		b := false
		switch rapid.IntRange(0, 2).Draw(t, "a0.class") {
		case 0:
			s, b = genString(t, "a0")
		case 1:
			f, bb := genFloat(t, "a0.f")
			s, b = strconv.FormatFloat(f, rapid.SampledFrom([]byte{'g', 'e', 'f', 'x'}).Draw(t, "a0.fmt"), -1, 64), bb
		case 2:
			s = rapid.StringMatching(`[-+]?[0-9]{0,5}(\.[0-9]{0,5})?([eE][-+]?[0-9]{1,3})?`).Draw(t, "a0.re")
		}
		c.Args, c.Boundary = []vrun.FArg{{T: "string", S: s}}, b
	case "stringToBool":
		base := rapid.SampledFrom([]string{"true", "false", "t", "f", "0", "1"}).Draw(t, "a0")
		var sb strings.Builder
		for i, r := range base {
			if rapid.Bool().Draw(t, fmt.Sprintf("a0.up%d", i)) {
				sb.WriteString(strings.ToUpper(string(r)))
			} else {
				sb.WriteRune(r)
			}
		}
		c.Args, c.Boundary = []vrun.FArg{{T: "string", S: sb.String()}}, true
	case "toLower", "toUpper":
		v, b := genString(t, "a0")
		c.Args, c.Boundary = []vrun.FArg{{T: "string", S: v}}, b
	case "splitString":
		v, b1 := genString(t, "a0")
		sep, b2 := genString(t, "a1")
		if rapid.Bool().Draw(t, "a1.short") {
			sep = rapid.SampledFrom([]string{",", "", " ", "b", "ß", ",,"}).Draw(t, "a1.s")
		}
		c.Args, c.Boundary = []vrun.FArg{{T: "string", S: v}, {T: "string", S: sep}}, b1 || b2 || sep == ""
	case "readFile":
		c.Args, c.Boundary = []vrun.FArg{{T: "string", S: rapid.SampledFrom([]string{"present.txt", "missing.txt", ".", "", "sub/../present.txt", "\x00"}).Draw(t, "a0")}}, true
	case "getEnvVar":
		d, _ := genString(t, "a1")
		c.Args, c.Boundary = []vrun.FArg{{T: "string", S: rapid.SampledFrom([]string{"VERIF_C18_SET", "VERIF_C18_UNSET", "", "=", "VERIF C18"}).Draw(t, "a0")}, {T: "string", S: d}}, true
	case "bindConstants":
		n := rapid.IntRange(0, 5).Draw(t, "a0.n")
		l := vrun.FArg{T: "list", L: make([]vrun.FArg, n)}
		for i := range l.L {
			l.L[i] = genAny(t, fmt.Sprintf("a0.%d", i), 2)
		}
		c.Args, c.Boundary = []vrun.FArg{l, genAny(t, "a1", 2)}, n == 0 || n >= 4
	}
	return c
}

func sameFloat(a, b float64) bool {
	if math.IsNaN(a) && math.IsNaN(b) {
		return true
	}
	return math.Float64bits(a) == math.Float64bits(b)
}

// expectFloatToInt is the law: truncate toward zero, saturate at the int64 bounds, NaN is an error.
func expectFloatToInt(x float64) (int64, bool) {
	switch {
	case math.IsNaN(x):
		return 0, false
	case x >= 9223372036854775808.0:
		return math.MaxInt64, true
	case x <= -9223372036854775808.0:
		return math.MinInt64, true
	}
	return int64(math.Trunc(x)), true
}

func basicFaults(c *FuncCase, fn string, ans *vrun.FuncAnswer) string {
	switch {
	case ans.ProcessDeath != "":
		return fmt.Sprintf("%s killed the process: %s", fn, short(ans.ProcessDeath, 600))
	case ans.Unknown:
		return fmt.Sprintf("function %s is not available", fn)
	case ans.Panic != "":
		return fmt.Sprintf("%s panicked: %s", fn, short(ans.Panic, 400))
	case ans.NonDeterministic != "":
		return fmt.Sprintf("%s is not deterministic: %s", fn, ans.NonDeterministic)
	case ans.TypeErr != "":
		return fmt.Sprintf("%s returned a value that violates its declared result type: %s", fn, short(ans.TypeErr, 300))
	}
	return ""
}

func call(fn string, args ...vrun.FArg) *vrun.FuncAnswer {
	return CallFunction(&vrun.FuncRequest{Fn: fn, Args: args})
}

func checkFuncCase(st *Stats, c *FuncCase) string {
	labels := []string{"law:" + c.Law}
	if c.Fn != "" {
		labels = append(labels, "fn:"+c.Fn)
	}
	if c.Excluded > 0 {
		st.mu.Lock()
		st.Excluded["K10b:huge-precision"] += c.Excluded
		st.mu.Unlock()
	}
	defer func() { st.Record(c, c.Boundary, labels) }()
	switch c.Law {
	case "typed-bindConstants":
		a := CallFunction(&vrun.FuncRequest{Fn: "bindConstants", Args: c.Args, Typed: true})
		if m := basicFaults(c, "bindConstants (typed arguments)", a); m != "" {
			return m
		}
		if a.OutOfDomain != "" {
			return "harness: " + a.OutOfDomain
		}
		if a.Err != "" {
			return "bindConstants returned an error for well-typed arguments: " + a.Err
		}
		return ""
	case "roundtrip-int":
		v := c.Args[0].I
		a := call("intToString", c.Args[0])
		if m := basicFaults(c, "intToString", a); m != "" {
			return m
		}
		if a.Err != "" {
			return "intToString returned an error: " + a.Err
		}
		if a.Result.S != strconv.FormatInt(v, 10) {
			return fmt.Sprintf("intToString(%d) = %q", v, a.Result.S)
		}
		b := call("stringToInt", *a.Result)
		if m := basicFaults(c, "stringToInt", b); m != "" {
			return m
		}
		if b.OutOfDomain != "" {
			return fmt.Sprintf("intToString(%d) = %q is not accepted by stringToInt's parameter schema: %s", v, a.Result.S, b.OutOfDomain)
		}
		if b.Err != "" || b.Result.I != v {
			return fmt.Sprintf("stringToInt(intToString(%d)) = %v (err %q)", v, b.Result, b.Err)
		}
		return ""
	case "roundtrip-float":
		v := c.Args[0].Float()
		a := call("floatToString", c.Args[0])
		if m := basicFaults(c, "floatToString", a); m != "" {
			return m
		}
		if a.Err != "" {
			return "floatToString returned an error: " + a.Err
		}
		b := call("stringToFloat", *a.Result)
		if m := basicFaults(c, "stringToFloat", b); m != "" {
			return m
		}
		if b.Err != "" || b.Result == nil || !sameFloat(b.Result.Float(), v) {
			return fmt.Sprintf("stringToFloat(floatToString(%v)) = %v (via %q, err %q)", v, b.Result, a.Result.S, b.Err)
		}
		return ""
	case "roundtrip-bool":
		a := call("boolToString", c.Args[0])
		if m := basicFaults(c, "boolToString", a); m != "" {
			return m
		}
		b := call("stringToBool", *a.Result)
		if m := basicFaults(c, "stringToBool", b); m != "" {
			return m
		}
		if b.Err != "" || b.OutOfDomain != "" || b.Result.B != c.Args[0].B {
			return fmt.Sprintf("stringToBool(boolToString(%v)) = %v (err %q %q)", c.Args[0].B, b.Result, b.Err, b.OutOfDomain)
		}
		return ""
	case "monotonic-floatToInt":
		x, y := c.Args[0].Float(), c.Args[1].Float()
		if math.IsNaN(x) || math.IsNaN(y) {
			labels = append(labels, "trivial-nan")
			return ""
		}
		if x > y {
			x, y = y, x
		}
		a, b := call("floatToInt", vrun.FloatArg(x)), call("floatToInt", vrun.FloatArg(y))
		if m := basicFaults(c, "floatToInt", a); m != "" {
			return m
		}
		if m := basicFaults(c, "floatToInt", b); m != "" {
			return m
		}
		if a.Err != "" || b.Err != "" {
			return fmt.Sprintf("floatToInt returned an error for a number: %q %q", a.Err, b.Err)
		}
		if a.Result.I > b.Result.I {
			return fmt.Sprintf("floatToInt is not monotonic: floatToInt(%v)=%d > floatToInt(%v)=%d", x, a.Result.I, y, b.Result.I)
		}
		return ""
	}
	ans := call(c.Fn, c.Args...)
	if ans.OutOfDomain != "" {
		labels = append(labels, "out-of-domain")
		c.Boundary = false
		return ""
	}
	if m := basicFaults(c, c.Fn, ans); m != "" {
		return m
	}
	res := ans.Result
	ok := ans.Err == ""
	arg := func(i int) vrun.FArg { return c.Args[i] }
	bad := func(format string, a ...any) string { return fmt.Sprintf(c.Fn+": "+format, a...) }
	switch c.Fn {
	case "intToFloat":
		if !ok || !sameFloat(res.Float(), float64(arg(0).I)) {
			return bad("intToFloat(%d) = %v err %q", arg(0).I, res, ans.Err)
		}
	case "floatToInt":
		want, defined := expectFloatToInt(arg(0).Float())
		if !defined {
			if ok {
				return bad("NaN must be an error, got %d", res.I)
			}
		} else if !ok || res.I != want {
			return bad("floatToInt(%v) = %v (err %q), expected %d (truncate toward zero, saturate)", arg(0).Float(), res, ans.Err, want)
		}
	case "intToString":
		if !ok || res.S != strconv.FormatInt(arg(0).I, 10) {
			return bad("intToString(%d) = %v", arg(0).I, res)
		}
	case "floatToString":
		if !ok {
			return bad("error %q", ans.Err)
		}
		back, err := strconv.ParseFloat(res.S, 64)
		if err != nil || !sameFloat(back, arg(0).Float()) {
			return bad("floatToString(%v) = %q does not read back", arg(0).Float(), res.S)
		}
		if strings.ContainsAny(res.S, "eE") && !math.IsInf(arg(0).Float(), 0) {
			return bad("floatToString(%v) = %q uses an exponent", arg(0).Float(), res.S)
		}
	case "floatToFormattedString":
		if !ok {
			return bad("error %q", ans.Err)
		}
		if arg(2).I == -1 && arg(1).S != "b" {
			back, err := strconv.ParseFloat(res.S, 64)
			if err != nil || !sameFloat(back, arg(0).Float()) {
				return bad("(%v,%q,-1) = %q does not read back exactly", arg(0).Float(), arg(1).S, res.S)
			}
		}
	case "boolToString":
		if !ok || res.S != map[bool]string{true: "true", false: "false"}[arg(0).B] {
			return bad("boolToString(%v) = %v", arg(0).B, res)
		}
	case "stringToInt":
		n, valid := new(big.Int).SetString(arg(0).S, 10)
		if !valid {
			return bad("harness: %q not a decimal", arg(0).S)
		}
		if n.IsInt64() {
			if !ok || res.I != n.Int64() {
				return bad("stringToInt(%q) = %v (err %q), expected %s", arg(0).S, res, ans.Err, n)
			}
		} else if ok {
			return bad("stringToInt(%q) = %d although the value does not fit 64 bits", arg(0).S, res.I)
		}
	case "stringToFloat":
		if ok {
			want, err := strconv.ParseFloat(arg(0).S, 64)
			if err != nil || !sameFloat(want, res.Float()) {
				return bad("stringToFloat(%q) = %v, reference %v (%v)", arg(0).S, res.Float(), want, err)
			}
		}
	case "stringToBool":
		want := map[string]bool{"true": true, "t": true, "1": true, "false": false, "f": false, "0": false}[strings.ToLower(arg(0).S)]
		if !ok || res.B != want {
			return bad("stringToBool(%q) = %v (err %q)", arg(0).S, res, ans.Err)
		}
	case "ceil", "floor", "round", "abs":
		x := arg(0).Float()
		want := map[string]func(float64) float64{"ceil": math.Ceil, "floor": math.Floor, "round": math.Round, "abs": math.Abs}[c.Fn](x)
		if !ok || !sameFloat(res.Float(), want) {
			return bad("%s(%v) = %v, expected %v", c.Fn, x, res, want)
		}
	case "toLower", "toUpper":
		want := strings.ToLower(arg(0).S)
		if c.Fn == "toUpper" {
			want = strings.ToUpper(arg(0).S)
		}
		if !ok || res.S != want {
			return bad("%s(%q) = %v, expected %q", c.Fn, arg(0).S, res, want)
		}
	case "splitString":
		if !ok || res.T != "list" {
			return bad("splitString(%q,%q) = %v err %q", arg(0).S, arg(1).S, res, ans.Err)
		}
		parts := make([]string, len(res.L))
		for i, p := range res.L {
			parts[i] = p.S
		}
		if strings.Join(parts, arg(1).S) != arg(0).S {
			return bad("joining splitString(%q,%q)=%q with the separator does not give the input back", arg(0).S, arg(1).S, parts)
		}
		wantN := strings.Count(arg(0).S, arg(1).S) + 1
		if arg(1).S == "" {
			wantN = utf8.RuneCountInString(arg(0).S)
		}
		if len(parts) != wantN {
			return bad("splitString(%q,%q) has %d pieces, expected %d", arg(0).S, arg(1).S, len(parts), wantN)
		}
	case "readFile":
		switch arg(0).S {
		case "present.txt", "sub/../present.txt":
			if !ok || res.S != "file content ü\n" {
				return bad("readFile(%q) = %v err %q", arg(0).S, res, ans.Err)
			}
		case "missing.txt", ".", "\x00":
			if ok {
				return bad("readFile(%q) succeeded: %v", arg(0).S, res)
			}
		}
	case "getEnvVar":
		want := arg(1).S
		if arg(0).S == "VERIF_C18_SET" {
			want = "value-from-env"
		}
		if !ok || res.S != want {
			return bad("getEnvVar(%q,%q) = %v, expected %q", arg(0).S, arg(1).S, res, want)
		}
	case "bindConstants":
		if !ok || res.T != "list" || len(res.L) != len(arg(0).L) {
			return bad("bindConstants: result %v err %q for %d items", res, ans.Err, len(arg(0).L))
		}
		for i, e := range res.L {
			if e.T != "map" || len(e.M) != 2 || fmt.Sprint(e.M["item"]) != fmt.Sprint(arg(0).L[i]) || fmt.Sprint(e.M["constant"]) != fmt.Sprint(arg(1)) {
				return bad("bindConstants: entry %d is %v, expected item %v with constant %v", i, e, arg(0).L[i], arg(1))
			}
		}
	}
	return ""
}

func TestC18(t *testing.T) {
	runProperty(t, "C18", genFuncCase, checkFuncCase)
}

//go:build verif

package props

import (
	"fmt"
	"testing"

	"go.flow.arcalot.io/engine/internal/verif/vcase"
	"go.flow.arcalot.io/engine/internal/verif/vrun"
	"pgregory.net/rapid"
)

func cancelProfile() vcase.Profile {
	p := racyProfile()
	p.Name = "cancel"
	p.StopIf = false
	p.SoftOpt = false
	return p
}

func closureSum(c *vcase.Case) (sumMs int64, depth int) {
	add := func(p *vcase.Program) {
		for _, s := range p.Steps {
			if s.Kind == "plugin" || s.Kind == "" {
				if s.ClosureTimeoutMs != nil && s.ClosureTimeoutMs.Lit != nil {
					sumMs += s.ClosureTimeoutMs.Lit.I
				} else {
					sumMs += 5000
				}
			}
		}
	}
	add(c.Main)
	for _, s := range c.Main.Steps {
		if s.Kind == "foreach" {
			depth = 1
			n := 1
			if s.Items != nil {
				n = len(s.Items.Vals)
			}
			for i := 0; i < n; i++ {
				add(c.Subs[s.Workflow])
			}
		}
	}
	return sumMs, depth
}

func TestC06(t *testing.T) {
	p := cancelProfile()
	runProperty(t, "C06",
		func(rt *rapid.T) *vcase.Case {
			c := vcase.GenCase(rt, p, "C06")
			tuneCancelBehaviour(rt, c)
			for _, sub := range c.Subs {
				for _, s := range sub.Steps {
					s.ClosureTimeoutMs = vcase.LitVal(vcase.IntLit(int64(rapid.IntRange(20, 200).Draw(rt, "subclosure."+s.Src))))
				}
			}
			c.Labels = append(c.Labels, addCancelTrigger(rt, c))
			sum, depth := closureSum(c)
			c.WatchdogMs = int(5000*int64(1+depth)+sum) + 12000
			for src, d := range c.Script.Deploys {
				if d.DelayMs == 30000 { // deploy-held-long: longer than the bound, shorter than the watchdog
					d.DelayMs = int(5000*int64(1+depth)+sum) + 6000
					c.Script.Deploys[src] = d
				}
			}
			return c
		},
		func(st *Stats, c *vcase.Case) string {
			ans := RunCase(c.Request("run"))
			if ans.PrepareErr != "" {
				return "generated program rejected by Prepare (generator soundness): " + short(ans.PrepareErr, 400)
			}
			owner, detail := anomaly(ans)
			if owner != "" && owner != "C06" && owner != "C01" && owner != "C05" {
				st.ForeignAnomaly(owner, c)
				return ""
			}
			// was something in flight when the cancellation fired?
			inFlight := 0
			if ans.TCancelUs > 0 {
				begun := map[string]bool{}
				for _, e := range ans.Log {
					if e.Phase != "run" || e.TUs > ans.TCancelUs {
						continue
					}
					switch e.Kind {
					case "deploy-begin":
						begun[e.Key] = true
					case "conn-close", "deploy-fail":
						delete(begun, e.Key)
					}
				}
				inFlight = len(begun)
			}
			labels := append([]string{}, c.Labels...)
			if ans.TCancelUs == 0 {
				labels = append(labels, "run-ended-before-cancel")
			}
			st.Record(c, inFlight > 0, labels)
			if ans.Hang != nil {
				if !ans.HangBlocked {
					st.Label("inconclusive-hang-without-block-evidence")
					return ""
				}
				return fmt.Sprintf("the cancelled run did not return within %d ms (bound + 10 s): %s", c.WatchdogMs, detail)
			}
			if ans.TCancelUs == 0 {
				return ""
			}
			sum, depth := closureSum(c)
			bound := 5000*int64(1+depth) + sum + 2000
			if took := (ans.TReturnUs - ans.TCancelUs) / 1000; took > bound {
				return fmt.Sprintf("the run returned %d ms after the cancellation, bound is %d ms (5 s grace x %d + closure timeouts %d ms + 2 s)", took, bound, 1+depth, sum)
			}
			// every never-ending plugin that started was told to stop and did stop
			started, ended, told := map[string]bool{}, map[string]bool{}, map[string]bool{}
			for _, e := range ans.Log {
				switch e.Kind {
				case "exec-start":
					started[e.Key] = true
				case "exec-end":
					ended[e.Key] = true
				case "signal", "ctx-done":
					told[e.Key] = true
				}
			}
			for k := range started {
				if !ended[k] {
					return fmt.Sprintf("plugin execution %q was still running when the cancelled run returned", k)
				}
				if b := c.Script.Steps[k]; b.Outcome == "never" && !told[k] {
					return fmt.Sprintf("never-ending plugin execution %q ended without a cancel signal or a closed connection", k)
				}
			}
			if owner == "C05" {
				return "after the cancelled run returned: " + detail
			}
			if ans.LiveExec != 0 {
				return fmt.Sprintf("%d plugin executions still in progress after the cancelled run returned", ans.LiveExec)
			}
			// result: an error, or an output whose plugin-produced dependencies were genuinely produced
			ret := ans.Returned
			if ret.Err != "" {
				return ""
			}
			return checkGenuine(c, ans)
		})
}

// checkGenuine verifies, from the plugin log alone, that every value of the returned output that
// the workflow text takes from a plugin step's outputs was really emitted by that step before the
// run returned, with exactly that data. Engine-generated stage outputs (which depend on the
// instant at which a step was closed) are not judged here.
func checkGenuine(c *vcase.Case, ans *vrun.Answer) string {
	ret := ans.Returned
	var out *vcase.Output
	for _, o := range c.Main.Outputs {
		if o.ID == ret.OutputID {
			out = o
		}
	}
	if out == nil {
		return fmt.Sprintf("returned undeclared output id %q", ret.OutputID)
	}
	emitted := map[string]map[string]any{} // key -> {output_id, data}
	for _, e := range ans.Log {
		if e.Kind == "exec-end" && e.TUs <= ans.TReturnUs {
			if pl, ok := e.Payload.(map[string]any); ok {
				emitted[e.Key] = pl
			}
		}
	}
	var walk func(v *vcase.Val, data any, path string) string
	walk = func(v *vcase.Val, data any, path string) string {
		switch v.K {
		case "map":
			m, ok := data.(map[string]any)
			if !ok {
				return fmt.Sprintf("%s: expected an object in the returned data, got %T", path, data)
			}
			for i, k := range v.Keys {
				child, present := m[k]
				if !present {
					switch v.Vals[i].K {
					case "waitopt", "softopt":
						continue
					}
					return fmt.Sprintf("%s.%s: missing in the returned data", path, k)
				}
				if d := walk(v.Vals[i], child, path+"."+k); d != "" {
					return d
				}
			}
		case "list":
			l, ok := data.([]any)
			if !ok || len(l) != len(v.Vals) {
				return fmt.Sprintf("%s: expected a list of %d items, got %v", path, len(v.Vals), data)
			}
			for i := range v.Vals {
				if d := walk(v.Vals[i], l[i], fmt.Sprintf("%s[%d]", path, i)); d != "" {
					return d
				}
			}
		case "expr", "waitopt", "softopt":
			e := v.Expr
			if e.K != "out" || e.Stage != "outputs" {
				return ""
			}
			st := c.Main.StepByID(e.Step)
			if st == nil || (st.Kind != "plugin" && st.Kind != "") {
				return ""
			}
			em, ok := emitted[e.Step]
			if !ok {
				return fmt.Sprintf("%s: the returned output uses %s but step %s never finished an execution", path, e.Text(), e.Step)
			}
			if id, _ := em["output_id"].(string); id != e.Output {
				return fmt.Sprintf("%s: the returned output uses %s but step %s emitted output %q", path, e.Text(), e.Step, id)
			}
			var exp any = em["data"]
			for _, p := range e.Path {
				mp, ok := exp.(map[string]any)
				if !ok {
					return fmt.Sprintf("%s: cannot follow %s in what the step emitted", path, e.Text())
				}
				exp = mp[p]
			}
			if d := vcase.Match(exp, data); d != "" {
				return fmt.Sprintf("%s: value differs from what step %s emitted: %s", path, e.Step, d)
			}
		}
		return ""
	}
	if d := walk(out.Val, ret.Data, "$"); d != "" {
		return "the cancelled run returned an output that was not genuinely produced: " + d
	}
	return ""
}

//go:build verif

package props

import (
	"encoding/json"
	"fmt"
	"os"
	"sort"
	"strings"
	"testing"

	"go.flow.arcalot.io/engine/internal/verif/vcase"
)

// TestShow prints a replay case: YAML, script, reference prediction and the engine's answer.
func TestShow(t *testing.T) {
	rp := os.Getenv("VERIF_SHOW")
	if rp == "" {
		t.Skip()
	}
	raw, err := os.ReadFile(rp)
	if err != nil {
		t.Fatal(err)
	}
	var wrap struct {
		Message string      `json:"message"`
		Case    *vcase.Case `json:"case"`
	}
	if err := json.Unmarshal(raw, &wrap); err != nil {
		t.Fatal(err)
	}
	c := wrap.Case
	fmt.Println("MESSAGE:", wrap.Message)
	if c == nil || c.Main == nil {
		var generic map[string]any
		_ = json.Unmarshal(raw, &generic)
		b, _ := json.MarshalIndent(generic["case"], "", " ")
		fmt.Println(string(b))
		return
	}
	fmt.Println("----- main workflow")
	fmt.Println(vcase.RenderYAML(c.Main))
	for name, p := range c.Subs {
		fmt.Println("----- file", name)
		fmt.Println(vcase.RenderYAML(p))
	}
	js := func(v any) string { b, _ := json.Marshal(v); return string(b) }
	fmt.Println("----- input:", js(c.InputDoc))
	fmt.Println("----- script:", js(c.Script))
	fmt.Println("----- triggers:", js(c.Triggers), "plan:", js(c.Plan))
	m := vcase.NewModel(c.Main, c.Subs, vcase.NormalizeInput(c.Main, c.InputDoc), c.Script, nil)
	fmt.Println("----- reference: producible", m.Producible(), "faults", js(m.Faults))
	for _, o := range c.Main.Outputs {
		fmt.Printf("   output %s: %s data=%s\n", o.ID, m.OutStatus[o.ID], js(m.OutData[o.ID]))
	}
	req := c.Request("run")
	req.Debug = os.Getenv("VERIF_DEBUG") != ""
	ans := RunCase(req)
	for i := 1; i < envInt("VERIF_REPEAT", 1); i++ {
		if owner, _ := anomaly(ans); owner != "" {
			fmt.Println("anomaly", owner, "at repetition", i)
			break
		}
		if slow := envInt("VERIF_SLOW_MS", 0); slow > 0 && ans.WallMs > float64(slow) {
			fmt.Println("slow run at repetition", i, ans.WallMs)
			break
		}
		ans = RunCase(req)
	}
	if len(ans.Hang) > 1 {
		fmt.Println("----- HANG: goroutines with engine frames (second dump)")
		for _, g := range strings.Split(ans.Hang[1], "\n\n") {
			if strings.Contains(g, "go.flow.arcalot.io/engine/") && !strings.Contains(g, "vrun.execute(") {
				fmt.Println(g)
				fmt.Println()
			}
		}
		ans.Hang = []string{"(printed above)"}
	}
	el := ans.EngineLog
	ans.EngineLog = ""
	lg := ans.Log
	if os.Getenv("VERIF_DEBUG") == "" {
		ans.Log = nil
	}
	fmt.Println("----- answer:", js(ans))
	for _, e := range lg {
		fmt.Printf("   %4d %8dus %-12s %-10s %s\n", e.Seq, e.TUs, e.Kind, e.Key, js(e.Payload))
	}
	if el != "" {
		fmt.Println("----- engine log")
		fmt.Println(el)
	}
}

// TestNodes prints the reference status of every node for a replay case (development aid).
func TestNodes(t *testing.T) {
	rp := os.Getenv("VERIF_NODES")
	if rp == "" {
		t.Skip()
	}
	raw, _ := os.ReadFile(rp)
	var wrap struct {
		Case *vcase.Case `json:"case"`
	}
	if err := json.Unmarshal(raw, &wrap); err != nil {
		t.Fatal(err)
	}
	c := wrap.Case
	m := vcase.NewModel(c.Main, c.Subs, vcase.NormalizeInput(c.Main, c.InputDoc), c.Script, nil)
	var ids []string
	for id := range m.Nodes {
		ids = append(ids, id)
	}
	sort.Strings(ids)
	for _, id := range ids {
		fmt.Println(id, m.Nodes[id])
	}
}

//go:build verif

package props

import (
	"encoding/json"
	"fmt"
	"os"
	"sort"
	"sync"
	"testing"

	"go.flow.arcalot.io/engine/internal/verif/vcase"
	"go.flow.arcalot.io/engine/internal/verif/vplug"
	"go.flow.arcalot.io/engine/internal/verif/vsched"
	"pgregory.net/rapid"
)

func liveProfile() vcase.Profile {
	return vcase.Profile{
		Name: "live", MinSteps: 1, MaxSteps: 8,
		Outcomes:   []string{"success", "success", "error", "crash", "never", "never", "alt", "bad_output"},
		DeployFail: true, DeployOdd: true, Foreach: true, Tags: true, Enabled: true, WaitFor: true,
		EngineOuts: true, MaxOutputs: 4, MaxDelayMs: 15, WideFanIn: 35, NeverOK: true,
		// classes that were excluded while K2 / K11 were open; references to closed.result etc. are
		// generated too: cases of the open finding K14 are recognised and tamed (tameNever)
		LiteralEnabled: true, StructFieldRefs: true, ClosedRefs: true,
	}
}

// tameNever turns never-ending steps into finishing ones until the reference no longer says that
// the only way to an output leads through a never-ending step (such a run legitimately never ends).
//
// k14 reports that the case was in the class of open finding K14 before taming: only stages that a
// step stuck waiting for input reaches when the run closes it keep an output pending - strictly
// no output can be produced any more while a never-ending step runs, yet the engine keeps waiting.
// A replay file with extra.no_tame leaves such a case as it is (the finding's reproducer).
func tameNever(c *vcase.Case) (m *vcase.Model, changed int, k14 bool) {
	in := vcase.NormalizeInput(c.Main, c.InputDoc)
	lenient := vcase.NewModel(c.Main, c.Subs, in, c.Script, nil)
	strict := vcase.NewStrictModel(c.Main, c.Subs, in, c.Script, nil)
	pendingIn := func(x *vcase.Model) bool {
		for _, st := range x.OutStatus {
			if st == vcase.Pending {
				return true
			}
		}
		return false
	}
	hasNever := false
	for _, b := range c.Script.Steps {
		if b.Outcome == "never" {
			hasNever = true
		}
	}
	if hasNever && pendingIn(lenient) && len(lenient.Producible()) == 0 && !pendingIn(strict) && len(strict.Producible()) == 0 {
		k14 = true
		if noTame, _ := c.Extra["no_tame"].(bool); noTame {
			return strict, 0, true
		}
	}
	for {
		m = vcase.NewModel(c.Main, c.Subs, vcase.NormalizeInput(c.Main, c.InputDoc), c.Script, nil)
		pending := false
		for _, st := range m.OutStatus {
			if st == vcase.Pending {
				pending = true
			}
		}
		if !pending || len(m.Producible()) > 0 {
			return m, changed, k14
		}
		done := false
		for _, k := range vplug.SortedKeys(c.Script.Steps) {
			b := c.Script.Steps[k]
			if b.Outcome == "never" {
				b.Outcome = "success"
				c.Script.Steps[k] = b
				changed++
				done = true
				break
			}
		}
		if !done {
			return m, changed, k14
		}
	}
}

// shortClosure gives every plugin step a closure timeout of 300 ms. A cancel signal that reaches
// the plugin-side SDK before the step has registered itself there is dropped (plugin-side code, out
// of the engine's hands); the engine then waits for the step's closure timeout - 5 s by default -
// before it force-closes it. With short timeouts that wait stays far below the promptness bound.
func shortClosure(c *vcase.Case) {
	progs := []*vcase.Program{c.Main}
	for _, p := range c.Subs {
		progs = append(progs, p)
	}
	for _, p := range progs {
		for _, s := range p.Steps {
			if (s.Kind == "plugin" || s.Kind == "") && s.ClosureTimeoutMs == nil {
				s.ClosureTimeoutMs = vcase.LitVal(vcase.IntLit(300))
			}
		}
	}
}

// unreachMotif builds a three-step case around one way a stage output can become impossible: a
// victim V ending in a generated way (success, error / alt output, crash while running, malformed
// output, failed deployment, crash while starting - write-refusing connection or schema mismatch -,
// disabled), a follower F whose wait_for needs one of V's stage outputs, a bystander that never ends,
// and an output that needs F. Whenever the reference rules the output out the run must end promptly
// although the bystander keeps running: every stage output that can no longer appear has to be
// declared impossible.
func unreachMotif(rt *rapid.T) *vcase.Case {
	mk := func(id, op string) *vcase.Step {
		return &vcase.Step{ID: id, Kind: "plugin", Op: op, Input: vcase.MapVal([]string{"key"}, []*vcase.Val{vcase.LitVal(vcase.StrLit(id))})}
	}
	v, f, b := mk("uv", "op"), mk("uf", "op"), mk("ub", "op")
	c := &vcase.Case{Prop: "C01", Profile: "motif:stage-output-becomes-impossible", Subs: map[string]*vcase.Program{}, InputDoc: map[string]any{}}
	c.Script.Steps = map[string]vplug.Behaviour{"uf": {Outcome: "success"}, "ub": {Outcome: "never", OnCancel: "alt"}}
	c.Script.Deploys = map[string]vplug.DeployBehaviour{}
	kind := rapid.SampledFrom([]string{"success", "error", "alt", "crash", "bad_output", "deploy-fail", "start-crash-badwrites", "start-crash-mismatch", "disabled"}).Draw(rt, "um.kind")
	vb := vplug.Behaviour{Outcome: "success", DelayMs: rapid.IntRange(0, 10).Draw(rt, "um.delay")}
	switch kind {
	case "error", "alt", "crash", "bad_output":
		vb.Outcome = kind
	case "deploy-fail":
		c.Script.Deploys["vp://uv"] = vplug.DeployBehaviour{FailRun: true}
	case "start-crash-badwrites":
		c.Script.Deploys["vp://uv"] = vplug.DeployBehaviour{BadWritesRun: true}
	case "start-crash-mismatch":
		c.Script.Deploys["vp://uv"] = vplug.DeployBehaviour{MismatchRun: true}
	case "disabled":
		v.Enabled = vcase.LitVal(vcase.BoolLit(false))
	}
	c.Script.Steps["uv"] = vb
	type so struct{ stage, output string }
	pick := rapid.SampledFrom([]so{{"outputs", "success"}, {"outputs", "error"}, {"outputs", "alt"}, {"starting", "started"}, {"enabling", "resolved"},
		{"disabled", "output"}, {"crashed", "error"}, {"deploy_failed", "error"}}).Draw(rt, "um.dep")
	f.WaitFor = vcase.ExprVal(&vcase.Expr{K: "out", Step: "uv", Stage: pick.stage, Output: pick.output})
	c.Main = &vcase.Program{Steps: []*vcase.Step{v, f, b},
		Outputs: []*vcase.Output{{ID: "success", Val: vcase.MapVal([]string{"r"}, []*vcase.Val{vcase.ExprVal(&vcase.Expr{K: "out", Step: "uf", Stage: "outputs", Output: "success", Path: []string{"s"}})})}}}
	c.Labels = []string{"motif:stage-output-becomes-impossible", "unreach-motif:victim-" + kind, "unreach-motif:follower-needs-" + pick.stage + "." + pick.output}
	// the follower may wait in its enabling stage instead (its enabled condition reads the victim's
	// success output), and may still be deploying when the victim's last event arrives
	if pick.stage == "outputs" && pick.output == "success" && rapid.Bool().Draw(rt, "um.wait-in-enabling") {
		f.WaitFor = nil
		f.Enabled = vcase.ExprVal(&vcase.Expr{K: "out", Step: "uv", Stage: "outputs", Output: "success", Path: []string{"ok"}})
		c.Labels = append(c.Labels, "unreach-motif:follower-waits-in-enabling")
	}
	if d := rapid.SampledFrom([]int{0, 0, 15, 40}).Draw(rt, "um.follower-deploy-ms"); d > 0 {
		c.Script.Deploys["vp://uf"] = vplug.DeployBehaviour{DelayMs: d}
		c.Labels = append(c.Labels, "unreach-motif:follower-deploys-slowly")
	}
	// the result may need what the follower reports only once it is closed: the graph cannot tell
	// that this never comes, the run has to notice that nothing can move any more (every step ends
	// here: with a never-ending bystander this is the recorded finding K14)
	if rapid.IntRange(0, 2).Draw(rt, "um.result-needs-closed") == 0 {
		c.Main.Outputs[0].Val = vcase.MapVal([]string{"r"}, []*vcase.Val{vcase.ExprVal(&vcase.Expr{K: "out", Step: "uf", Stage: "closed", Output: "result"})})
		c.Script.Steps["ub"] = vplug.Behaviour{Outcome: "success", DelayMs: rapid.IntRange(0, 20).Draw(rt, "um.bystander-ms")}
		c.Labels = append(c.Labels, "unreach-motif:result-needs-closed-of-follower")
	}
	return c
}

var planSitesOnce struct {
	sync.Once
	sites []string
}

// planSites lists all schedule points of this build (empty for a binary without them).
func planSites() []string {
	planSitesOnce.Do(func() {
		raw, err := os.ReadFile("build/sites.json")
		if err != nil {
			return
		}
		var all map[string][]string
		if json.Unmarshal(raw, &all) != nil {
			return
		}
		for _, l := range all {
			planSitesOnce.sites = append(planSitesOnce.sites, l...)
		}
		sort.Strings(planSitesOnce.sites)
	})
	return planSitesOnce.sites
}

// stoppedMotif: the victim is stopped (stop_if on a quick step) at a generated moment of its life -
// while it waits for its deployment input, during its deployment, while it waits to be enabled or
// while it runs. It then ends in closed.result (or, when running, in whatever it answers to the cancel
// signal); every other stage output it can no longer produce has to be declared impossible, so a
// follower that needs one of those never starts and the run ends promptly although a bystander
// never ends. The reference does not model stop conditions; the expectation is stated here.
func stoppedMotif(rt *rapid.T) *vcase.Case {
	mk := func(id, op string) *vcase.Step {
		return &vcase.Step{ID: id, Kind: "plugin", Op: op, Input: vcase.MapVal([]string{"key"}, []*vcase.Val{vcase.LitVal(vcase.StrLit(id))})}
	}
	out := func(step, stage, output string, path ...string) *vcase.Val {
		return vcase.ExprVal(&vcase.Expr{K: "out", Step: step, Stage: stage, Output: output, Path: path})
	}
	v, y, f, b := mk("sv", "op"), mk("sy", "op"), mk("sf", "op"), mk("sb", "op")
	v.StopIf = out("sy", "outputs", "success")
	c := &vcase.Case{Prop: "C01", Profile: "motif:victim-stopped", Subs: map[string]*vcase.Program{}, InputDoc: map[string]any{}}
	c.Script.Steps = map[string]vplug.Behaviour{"sv": {Outcome: "never", OnCancel: "alt"}, "sy": {Outcome: "success", DelayMs: 40}, "sf": {Outcome: "success"}, "sb": {Outcome: "never", OnCancel: "alt"}}
	c.Script.Deploys = map[string]vplug.DeployBehaviour{}
	when := rapid.SampledFrom([]string{"waiting-for-deploy-input", "deploying", "deploying-uninterruptible", "waiting-to-be-enabled", "running"}).Draw(rt, "sm.when")
	slow := mk("sz", "op") // a step that ends long after the stop: sources for inputs that arrive too late
	c.Script.Steps["sz"] = vplug.Behaviour{Outcome: "success", DelayMs: 400}
	switch when {
	case "waiting-for-deploy-input":
		v.DeployTag = out("sz", "outputs", "success", "s")
	case "deploying":
		// the deployer honours its context: the interrupted deployment fails (deploy_failed.error is produced)
		c.Script.Deploys["vp://sv"] = vplug.DeployBehaviour{DelayMs: 300}
	case "deploying-uninterruptible":
		c.Script.Deploys["vp://sv"] = vplug.DeployBehaviour{DelayMs: 300, IgnoreCancel: true}
	case "waiting-to-be-enabled":
		v.Enabled = out("sz", "outputs", "success", "ok")
	}
	type so struct{ stage, output string }
	pick := rapid.SampledFrom([]so{{"outputs", "success"}, {"outputs", "error"}, {"starting", "started"}, {"disabled", "output"},
		{"crashed", "error"}, {"deploy_failed", "error"}}).Draw(rt, "sm.dep")
	f.WaitFor = out("sv", pick.stage, pick.output)
	c.Main = &vcase.Program{Steps: []*vcase.Step{v, y, f, b, slow},
		Outputs: []*vcase.Output{{ID: "success", Val: vcase.MapVal([]string{"r"}, []*vcase.Val{out("sf", "outputs", "success", "s")})}}}
	c.Labels = []string{"motif:victim-stopped", "stopped-motif:" + when, "stopped-motif:follower-needs-" + pick.stage + "." + pick.output}
	if (when == "running" && pick.stage == "starting") || (when == "deploying" && pick.stage == "deploy_failed") {
		c.Labels = append(c.Labels, "stopped-motif:follower-may-run")
	}
	return c
}

func TestC01(t *testing.T) {
	p := liveProfile()
	runProperty(t, "C01",
		func(rt *rapid.T) *vcase.Case {
			var c *vcase.Case
			if k := rapid.IntRange(0, 15).Draw(rt, "motif?"); k <= 1 {
				c = unreachMotif(rt)
			} else if k == 2 {
				c = stoppedMotif(rt)
			} else {
				c = vcase.GenCase(rt, p, "C01")
			}
			c.WatchdogMs = 10000
			// injected scheduling delays: a quarter of the cases holds 1-3 schedule points (first 1-3
			// passes each, 5-40 ms) - a delay may change which error ends a run, never whether it ends
			if sites := planSites(); len(sites) > 0 && rapid.IntRange(0, 3).Draw(rt, "plan?") == 0 {
				c.Plan = vsched.Plan{}
				for i, n := 0, rapid.IntRange(1, 3).Draw(rt, "plan.n"); i < n; i++ {
					site := sites[rapid.IntRange(0, len(sites)-1).Draw(rt, fmt.Sprintf("plan.site%d", i))]
					c.Plan[site] = vsched.SitePlan{DelayMs: rapid.IntRange(5, 40).Draw(rt, fmt.Sprintf("plan.ms%d", i)), First: rapid.IntRange(1, 3).Draw(rt, fmt.Sprintf("plan.first%d", i))}
				}
				c.Labels = append(c.Labels, "injected-scheduling-delays")
			}
			if os.Getenv("VERIF_C01_DEFAULT_CLOSURE") == "" {
				shortClosure(c)
			}
			return c
		},
		func(st *Stats, c *vcase.Case) string {
			if c.Profile == "motif:victim-stopped" {
				ans := RunCase(c.Request("run"))
				if ans.PrepareErr != "" {
					return "generated program rejected by Prepare (generator soundness): " + short(ans.PrepareErr, 400)
				}
				owner, detail := anomaly(ans)
				st.Record(c, true, c.Labels)
				if owner == "C01" {
					if !ans.HangBlocked {
						st.Label("inconclusive-hang-without-block-evidence")
						return ""
					}
					return fmt.Sprintf("run did not return within %d ms although the stopped step can no longer produce what the follower needs and all engine goroutines are blocked (%s)", c.WatchdogMs, detail)
				}
				if owner != "" {
					st.ForeignAnomaly(owner, c)
					return ""
				}
				mayRun := false
				for _, l := range c.Labels {
					if l == "stopped-motif:follower-may-run" {
						mayRun = true
					}
				}
				if ans.Returned.Err == "" && !mayRun {
					return fmt.Sprintf("the run returned output %q although the follower's dependency can never be produced by a stopped step", ans.Returned.OutputID)
				}
				return ""
			}
			m, tamed, k14 := tameNever(c)
			if tamed > 0 {
				st.Label("never-tamed")
			}
			if k14 && tamed > 0 {
				st.mu.Lock()
				st.Excluded["K14:output-pending-only-on-stages-reached-by-closing-a-stuck-step"]++
				st.mu.Unlock()
			}
			ans := RunCase(c.Request("run"))
			if ans.PrepareErr != "" {
				return "generated program rejected by Prepare (generator soundness): " + short(ans.PrepareErr, 400)
			}
			owner, detail := anomaly(ans)
			if owner != "" && owner != "C01" {
				st.ForeignAnomaly(owner, c)
				return ""
			}
			nonSuccess, never := 0, 0
			for _, b := range c.Script.Steps {
				if b.Outcome != "success" && b.Outcome != "" {
					nonSuccess++
				}
				if b.Outcome == "never" {
					never++
				}
			}
			labels := append([]string{}, c.Labels...)
			if len(c.Main.Steps) >= 21 {
				labels = append(labels, "fan-in>=21")
			}
			if never > 0 {
				labels = append(labels, "has-never")
			}
			if len(m.Producible()) == 0 {
				labels = append(labels, "no-output-producible")
				if never > 0 {
					labels = append(labels, "no-output-producible+never-running")
				}
			}
			st.Record(c, len(c.Main.Steps) >= 2 && (nonSuccess > 0 || len(c.Main.Steps) >= 21), labels)
			if owner == "C01" {
				if len(ans.Hang) > 0 && ans.Hang[0] == "late-finish" {
					st.Label("inconclusive-late-finish")
					return ""
				}
				if !ans.HangBlocked {
					st.Label("inconclusive-hang-without-block-evidence")
					return ""
				}
				class := ""
				// (finding K14 needs an unrelated step that never ends: without one the fallback detector
				// must end the run, and a hang is not that finding)
				for _, o := range c.Main.Outputs {
					if never == 0 {
						break
					}
					o.Val.Walk(func(v *vcase.Val) {
						if v.Expr != nil {
							var refs []vcase.Ref
							v.Expr.Refs(&refs)
							for _, r := range refs {
								if r.Stage == "closed" || r.Stage == "crashed" || r.Stage == "failed" {
									class = " [class: an output references closed.result, crashed.error or failed.error of a step]"
								}
							}
						}
					})
				}
				return fmt.Sprintf("run did not return within %d ms and all engine goroutines are blocked (%s); producible=%v%s", c.WatchdogMs, detail, m.Producible(), class)
			}
			ret := ans.Returned
			if ret.Err == "" {
				if _, ok := m.OutStatus[ret.OutputID]; !ok {
					return fmt.Sprintf("returned undeclared output id %q", ret.OutputID)
				}
			} else if ret.OutputID != "" || ret.Data != nil {
				return "returned both an error and an output"
			}
			// promptness: when nothing is producible the run must end soon after the last scripted
			// event that is not a never-ending step, not wait for unrelated never-ending steps.
			if len(m.Producible()) == 0 {
				var last int64 = ans.TRunStartUs
				for _, e := range ans.Log {
					if e.Phase != "run" || e.TUs > ans.TReturnUs {
						continue
					}
					if e.Kind == "exec-end" || e.Kind == "deploy-fail" || e.Kind == "deploy-end" || e.Kind == "exec-start" {
						if b, ok := c.Script.Steps[e.Key]; ok && b.Outcome == "never" && e.Kind == "exec-end" {
							continue
						}
						if e.TUs > last {
							last = e.TUs
						}
					}
				}
				if d := ans.TReturnUs - last; d > 3_000_000 {
					trace := ""
					n := 0
					for i := len(ans.Log) - 1; i >= 0 && n < 40; i-- {
						e := ans.Log[i]
						if e.Phase == "run" {
							trace = fmt.Sprintf(" %d:%s(%s)@%dus", e.Seq, e.Kind, e.Key, e.TUs) + trace
							n++
						}
					}
					return fmt.Sprintf("no output producible, but the run returned only %d ms after the last step event (returned at %dus: %s); last events:%s", d/1000, ans.TReturnUs, short(ret.Err, 200), trace)
				}
			}
			return ""
		})
}

//go:build verif && !race

package props

const raceEnabled = false

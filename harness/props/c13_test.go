//go:build verif

package props

import (
	"encoding/json"
	"fmt"
	"os"
	"sort"
	"strings"
	"sync"
	"testing"

	"go.flow.arcalot.io/engine/internal/verif/vcase"
	"go.flow.arcalot.io/engine/internal/verif/vrun"
	"go.flow.arcalot.io/engine/internal/verif/vsched"
	"pgregory.net/rapid"
)

func extraInt(c *vcase.Case, k string) int {
	switch x := c.Extra[k].(type) {
	case int:
		return x
	case int64:
		return int(x)
	case float64:
		return int(x)
	}
	return 0
}

var loopSitesOnce struct {
	sync.Once
	sites []string
}

// loopSites lists the schedule points of the loop provider's item handling (from the site list
// the instrumenter wrote for this build; empty when the binary has no schedule points).
func loopSites() []string {
	loopSitesOnce.Do(func() {
		raw, err := os.ReadFile("build/sites.json")
		if err != nil {
			return
		}
		var all map[string][]string
		if json.Unmarshal(raw, &all) != nil {
			return
		}
		for _, s := range all["internal/step/foreach/provider.go"] {
			if strings.Contains(s, "executeSubWorkflows#") || strings.Contains(s, "processInput#") {
				loopSitesOnce.sites = append(loopSitesOnce.sites, s)
			}
		}
		sort.Strings(loopSitesOnce.sites)
	})
	return loopSitesOnce.sites
}

func TestC13(t *testing.T) {
	runProperty(t, "C13",
		func(rt *rapid.T) *vcase.Case {
			c := vcase.GenLoopCase(rt)
			// closing at any time: in a quarter of the cases the caller cancels while items are in flight
			if n := extraInt(c, "n"); n > 0 && rapid.IntRange(0, 3).Draw(rt, "cancel?") == 0 {
				item := rapid.IntRange(0, n-1).Draw(rt, "cancel.item")
				key := fmt.Sprintf("loop#%d", item)
				if _, ok := c.Script.Steps[key]; !ok {
					key += ".in#a"
				}
				c.Triggers = append(c.Triggers, vrun.Trigger{Action: "cancel", On: "exec-start:" + key, AfterMs: rapid.IntRange(0, 10).Draw(rt, "cancel.ms")},
					vrun.Trigger{Action: "cancel", AfterMs: 400})
				for k, b := range c.Script.Steps {
					if rapid.Bool().Draw(rt, "ignore."+k) {
						b.OnCancel = "ignore"
					}
					c.Script.Steps[k] = b
				}
				c.Labels = append(c.Labels, "closed-while-running")
			}
			// a third of the cases delays one schedule point inside the loop provider (all hits, the
			// first k or exactly the k-th): items then sit between two of the provider's steps while
			// their siblings pass by
			if sites := loopSites(); len(sites) > 0 && rapid.IntRange(0, 2).Draw(rt, "delay?") == 0 {
				site := sites[rapid.IntRange(0, len(sites)-1).Draw(rt, "delay.site")]
				sp := vsched.SitePlan{DelayMs: rapid.IntRange(2, 25).Draw(rt, "delay.ms")}
				switch rapid.IntRange(0, 2).Draw(rt, "delay.which") {
				case 1:
					sp.First = rapid.IntRange(1, 3).Draw(rt, "delay.first")
				case 2:
					sp.Nth = rapid.IntRange(1, 4).Draw(rt, "delay.nth")
				}
				c.Plan = vsched.Plan{site: sp}
				c.Labels = append(c.Labels, "delayed-site-in-loop-provider")
			}
			return c
		},
		func(st *Stats, c *vcase.Case) string {
			m := vcase.NewModel(c.Main, c.Subs, vcase.NormalizeInput(c.Main, c.InputDoc), c.Script, nil)
			ans := RunCase(c.Request("run"))
			if ans.PrepareErr != "" {
				return "generated program rejected by Prepare (generator soundness): " + short(ans.PrepareErr, 400)
			}
			owner, detail := anomaly(ans)
			if owner == "C08" && len(c.Triggers) > 0 {
				st.Record(c, true, c.Labels)
				return "a loop closed while items were in flight produced data that violates its schema: " + short(detail, 500)
			}
			if owner != "" {
				st.ForeignAnomaly(owner, c)
				return ""
			}
			if len(c.Triggers) > 0 && ans.TCancelUs > 0 {
				st.Record(c, true, c.Labels)
				if ans.Returned.Err != "" {
					return ""
				}
				if msg := checkCancelledLoop(c, m, (*returned)(ans.Returned)); msg != "" {
					return "a cancelled loop returned a result that is neither an error nor a consistent loop result: " + msg
				}
				return ""
			}
			n, par, failing := extraInt(c, "n"), extraInt(c, "parallelism"), extraInt(c, "failing")
			force, _ := c.Extra["force_overlap"].(bool)
			labels := append([]string{}, c.Labels...)
			labels = append(labels, fmt.Sprintf("n:%s", bucket(n)), fmt.Sprintf("parallelism<n:%v", par < n), fmt.Sprintf("failing-items:%v", failing > 0), fmt.Sprintf("forced-overlap:%v", force))
			st.Record(c, n >= 2 || failing > 0 || par < n, labels)
			high := ans.ConcHigh["loop"]
			for g, h := range ans.ConcHigh {
				if len(g) > 3 && g[len(g)-3:] == ".in" && h > 2 {
					return fmt.Sprintf("%d items of the inner loop %s executed at the same time although its parallelism is 2", h, g)
				}
			}
			if high > par {
				return fmt.Sprintf("%d items of the loop executed at the same time although parallelism is %d", high, par)
			}
			if force {
				want := par
				if n < want {
					want = n
				}
				if high != want {
					return fmt.Sprintf("with items that wait for each other only %d items ran at the same time; parallelism %d and %d items allow %d", high, par, n, want)
				}
			}
			return checkResult(c, m, (*returned)(ans.Returned))
		})
}

func bucket(n int) string {
	switch {
	case n == 0:
		return "0"
	case n == 1:
		return "1"
	case n <= 8:
		return "2-8"
	case n <= 19:
		return "9-19"
	}
	return "20+"
}

// checkCancelledLoop accepts, for a loop that was closed while running, the full success result
// or a failure result in which successful and failed indexes partition the items, successful
// entries equal the reference and every item the script makes fail is among the failed ones.
func checkCancelledLoop(c *vcase.Case, m *vcase.Model, ret *returned) string {
	fate := m.Fates["loop"]
	n := len(fate.ItemModels)
	data, _ := ret.Data.(map[string]any)
	switch ret.OutputID {
	case "success":
		return checkResult(c, m, ret)
	case "failed":
		e, _ := data["e"].(map[string]any)
		ok, _ := e["data"].(map[string]any)
		errs, _ := e["errors"].(map[string]any)
		if len(ok)+len(errs) != n {
			return fmt.Sprintf("%d successful + %d failed entries for %d items", len(ok), len(errs), n)
		}
		for i, im := range fate.ItemModels {
			k := fmt.Sprint(i)
			_, isOK := ok[k]
			_, isErr := errs[k]
			if isOK == isErr {
				return fmt.Sprintf("item %d is reported %d times", i, map[bool]int{true: 2, false: 0}[isOK])
			}
			refOK := im.OutStatus["success"] == vcase.Produced && im.OutFault["success"] == nil && len(im.Producible()) == 1
			if isOK {
				if !refOK {
					return fmt.Sprintf("item %d is reported successful but its script makes it fail", i)
				}
				if d := vcase.Match(im.OutData["success"], ok[k]); d != "" {
					return fmt.Sprintf("result of item %d differs from the reference: %s", i, d)
				}
			} else if _, isStr := errs[k].(string); !isStr {
				return fmt.Sprintf("failed item %d has no message", i)
			}
		}
		return ""
	}
	return "unexpected output id " + ret.OutputID
}

//go:build verif

package props

import (
	"encoding/json"
	"fmt"
	"sort"
	"strings"
	"testing"

	"go.flow.arcalot.io/engine/internal/verif/vcase"
	"go.flow.arcalot.io/engine/internal/verif/vrun"
	"pgregory.net/rapid"
)

type canonForm struct {
	verdict string
	nodes   []string
	edges   []string
	schemas string
}

func canonical(ans *vrun.Answer, names map[string]string) canonForm {
	if ans.PrepareErr != "" || ans.PreparePanic != "" {
		return canonForm{verdict: "rejected"}
	}
	cf := canonForm{verdict: "accepted"}
	cf.nodes = vcase.MapBack(ans.DAG.Nodes, names)
	cf.edges = vcase.MapBack(ans.DAG.Edges, names)
	sort.Strings(cf.nodes)
	sort.Strings(cf.edges)
	b, _ := json.Marshal(map[string]any{"out": ans.OutputSchema, "ns": ans.Namespaces})
	s := string(b)
	for old, n := range names {
		s = strings.ReplaceAll(s, "steps."+n+".", "steps."+old+".")
		s = strings.ReplaceAll(s, "\"id\":\""+n+"\"", "\"id\":\""+old+"\"")
	}
	// namespaces are keyed by path: re-sort after renaming
	var v any
	_ = json.Unmarshal([]byte(s), &v)
	b, _ = json.Marshal(v)
	cf.schemas = string(b)
	return cf
}

func diffCanon(a, b canonForm) string {
	if a.verdict != b.verdict {
		return fmt.Sprintf("verdict %s vs %s", a.verdict, b.verdict)
	}
	if d := vcase.DiffGraphs(a.nodes, a.edges, b.nodes, b.edges); d != "" {
		return "graph: " + d
	}
	if a.schemas != b.schemas {
		x, y := a.schemas, b.schemas
		i := 0
		for i < len(x) && i < len(y) && x[i] == y[i] {
			i++
		}
		lo := max(0, i-150)
		return fmt.Sprintf("output schemas / namespaces differ near: %q vs %q", x[lo:min(len(x), i+150)], y[lo:min(len(y), i+150)])
	}
	return ""
}

func permFrom(seeds []int) func(n int) []int {
	k := 0
	return func(n int) []int {
		p := make([]int, n)
		for i := range p {
			p[i] = i
		}
		for i := n - 1; i > 0; i-- {
			s := 7
			if len(seeds) > 0 {
				s = seeds[k%len(seeds)]
				k++
			}
			j := s % (i + 1)
			p[i], p[j] = p[j], p[i]
		}
		return p
	}
}

func seedsOf(c *vcase.Case) []int {
	var out []int
	switch l := c.Extra["perm_seeds"].(type) {
	case []int:
		out = l
	case []any:
		for _, x := range l {
			if f, ok := x.(float64); ok {
				out = append(out, int(f))
			}
		}
	}
	return out
}

func TestC16(t *testing.T) {
	p := prepProfile()
	runProperty(t, "C16",
		func(rt *rapid.T) *vcase.Case {
			c := vcase.GenCase(rt, p, "C16")
			if c.Extra == nil {
				c.Extra = map[string]any{}
			}
			seeds := make([]int, 24)
			for i := range seeds {
				seeds[i] = rapid.IntRange(0, 1<<16).Draw(rt, fmt.Sprintf("perm.%d", i))
			}
			c.Extra["perm_seeds"] = seeds
			return c
		},
		func(st *Stats, c *vcase.Case) string {
			prep := func(prog *vcase.Program) *vrun.Answer {
				cc := *c
				cc.Main = prog
				req := cc.Request("prepare")
				req.WantDAG, req.WantSchema = true, true
				return RunCase(req)
			}
			base := prep(c.Main)
			if owner, _ := anomaly(base); owner != "" {
				st.ForeignAnomaly(owner, c)
				return ""
			}
			if base.PrepareErr != "" {
				return "generated program rejected by Prepare (generator soundness): " + short(base.PrepareErr, 400)
			}
			ref := canonical(base, nil)
			tags := 0
			for _, l := range c.Labels {
				if strings.HasPrefix(l, "tag:") {
					tags++
				}
			}
			nt := len(c.Main.Steps) >= 3 || tags > 0
			// 1. repetition
			for i := 0; i < 2; i++ {
				st.Record(map[string]any{"base": c, "transformation": fmt.Sprintf("repeat-%d", i)}, nt, []string{"transformation:repeat"})
				if d := diffCanon(ref, canonical(prep(c.Main), nil)); d != "" {
					return "preparing the same text again gives a different result: " + d
				}
			}
			// 2. permutations
			seeds := seedsOf(c)
			for i := 0; i < 3; i++ {
				perm := vcase.Permute(c.Main, permFrom(seeds[i*8:]))
				st.Record(map[string]any{"base": c, "transformation": fmt.Sprintf("permute-%d", i)}, nt, []string{"transformation:permute"})
				if d := diffCanon(ref, canonical(prep(perm), nil)); d != "" {
					return fmt.Sprintf("reordering steps / outputs / keys changes the prepared workflow: %s", d)
				}
			}
			// 3. consistent renaming of steps
			names := map[string]string{}
			for i, s := range c.Main.Steps {
				names[s.ID] = fmt.Sprintf("zz%c_%d", 'z'-rune(i%26), (i*7+3)%11)
			}
			ren := vcase.RenameSteps(c.Main, names)
			st.Record(map[string]any{"base": c, "transformation": "rename"}, nt, []string{"transformation:rename"})
			if d := diffCanon(ref, canonical(prep(ren), names)); d != "" {
				return "consistently renaming the steps changes more than the names: " + d
			}
			// 4. the verdict on an invalid text is deterministic too: one single-point corruption of the
			// program (chosen by the case's seeds), prepared four times and once with its keys permuted
			if progs, descs := vcase.Corruptions(c.Main); len(progs) > 0 {
				k := seeds[23] % len(progs)
				first := prep(progs[k]).PrepareErr != ""
				st.Record(map[string]any{"base": c, "transformation": "corrupted-verdict", "corruption": descs[k]}, true, []string{"transformation:corrupted-verdict"})
				for i := 0; i < 4; i++ {
					prog := progs[k]
					if i == 3 {
						prog = vcase.Permute(progs[k], permFrom(seeds[16:]))
					}
					a := prep(prog)
					if owner, _ := anomaly(a); owner != "" {
						break
					}
					if (a.PrepareErr != "") != first {
						return fmt.Sprintf("the same invalid text (%s) is rejected by one preparation and accepted by another", descs[k].Desc)
					}
				}
			}
			return ""
		})
}

//go:build verif

package props

import (
	"fmt"
	"go.flow.arcalot.io/engine/internal/verif/vsched"
	"testing"

	"go.flow.arcalot.io/engine/internal/verif/vcase"
	"go.flow.arcalot.io/engine/internal/verif/vplug"
	"go.flow.arcalot.io/engine/internal/verif/vrun"
	"pgregory.net/rapid"
)

// mayRunKeys returns the behaviour keys whose plugin code may execute, and those that must not.
func mayRunKeys(m *vcase.Model, may map[string]bool, mustNot map[string]bool) {
	for _, s := range m.Prog.Steps {
		f := m.Fates[s.ID]
		switch s.Kind {
		case "plugin", "":
			key := s.ID
			if s.Input != nil {
				if kv := s.Input.Get("key"); kv != nil && kv.K == "lit" {
					key = kv.Lit.S
				} else if f != nil && f.ExpectedInput != nil {
					key, _ = f.ExpectedInput["key"].(string)
				} else {
					continue // key unknown: the step never got an input in the reference
				}
			}
			if f != nil && f.MayRun {
				may[key] = true
			} else {
				mustNot[key] = true
			}
		case "foreach":
			if f == nil {
				continue
			}
			for _, im := range f.ItemModels {
				mayRunKeys(im, may, mustNot)
			}
		}
	}
}

// checkMayRun is the C04 oracle.
func checkMayRun(ms []*vcase.Model, ans *vrun.Answer) (msg string, forbidden int) {
	may, mustNot := map[string]bool{}, map[string]bool{}
	mayRunKeys(ms[0], may, mustNot)
	for _, m := range ms[1:] {
		may2, mustNot2 := map[string]bool{}, map[string]bool{}
		mayRunKeys(m, may2, mustNot2)
		for k := range may2 {
			may[k] = true
			delete(mustNot, k)
		}
	}
	for _, k := range execStarts(ans) {
		if mustNot[k] {
			return fmt.Sprintf("plugin code of %q was executed although a prerequisite was not produced, it was disabled or its deployment failed", k), len(mustNot)
		}
		if !may[k] {
			return fmt.Sprintf("plugin code executed under unknown key %q", k), len(mustNot)
		}
	}
	// a disabled step reports its disabled output instead: visible through outputs that use it (C03);
	// here: no exec-start for it (covered above).
	return "", len(mustNot)
}

// addStopMotif appends four steps that make "the stop condition fires before the step starts"
// deterministic: S waits for X and stops if Y; Z needs Y; X can finish only after Z started,
// i.e. after the pass of the run loop that delivered the stop to S.
//
// late=true additionally makes S's goroutine late to its blocking receive (single-site delay before
// the receive in startStage, deployment of S finishing right before Y ends) so that the stop and
// the run input are both pending when it gets there (finding K31).
//
// where selects the stage in which S waits for X: "starting" (wait_for), "enabling" (enabled is an
// expression over X's output) or "deploy" (the deployment tag is an expression over X's output).
func addStopMotif(c *vcase.Case, late bool, where string) {
	mk := func(id string) *vcase.Step {
		return &vcase.Step{ID: id, Kind: "plugin", Op: "op", Input: vcase.MapVal([]string{"key"}, []*vcase.Val{vcase.LitVal(vcase.StrLit(id))})}
	}
	outs := func(step string) *vcase.Val {
		return vcase.ExprVal(&vcase.Expr{K: "out", Step: step, Stage: "outputs", Output: "success"})
	}
	y, x, z, st := mk("my"), mk("mx"), mk("mz"), mk("ms")
	z.WaitFor = outs("my")
	switch where {
	case "enabling":
		st.Enabled = vcase.ExprVal(&vcase.Expr{K: "out", Step: "mx", Stage: "outputs", Output: "success", Path: []string{"ok"}})
	case "deploy":
		st.DeployTag = vcase.ExprVal(&vcase.Expr{K: "out", Step: "mx", Stage: "outputs", Output: "success", Path: []string{"s"}})
	default:
		st.WaitFor = outs("mx")
	}
	st.StopIf = outs("my")
	c.Main.Steps = append(c.Main.Steps, y, x, z, st)
	c.Script.Steps["my"] = vplug.Behaviour{Outcome: "success", DelayMs: 5}
	c.Script.Steps["mx"] = vplug.Behaviour{Outcome: "success", Gate: "exec-start:mz", GateTimeoutMs: 1500}
	c.Script.Steps["mz"] = vplug.Behaviour{Outcome: "success", DelayMs: 5}
	c.Script.Steps["ms"] = vplug.Behaviour{Outcome: "success"}
	for _, o := range c.Main.Outputs {
		if o.Val.K == "map" {
			for _, id := range []string{"my", "mx", "mz", "ms"} {
				o.Val.Set("w_"+id, &vcase.Val{K: "waitopt", Expr: &vcase.Expr{K: "stage", Step: id, Stage: "outputs"}})
			}
		}
	}
	c.Labels = append(c.Labels, "motif:stop-fires-before-start", "motif:stop-fires-before-start/waiting-in-"+where)
	if late {
		if c.Script.Deploys == nil {
			c.Script.Deploys = map[string]vplug.DeployBehaviour{}
		}
		c.Script.Deploys["vp://ms"] = vplug.DeployBehaviour{DelayMs: 80}
		c.Script.Steps["my"] = vplug.Behaviour{Outcome: "success", Gate: "run/deploy-end:vp://ms", GateTimeoutMs: 1500, AfterGateMs: 20}
		if c.Plan == nil {
			c.Plan = vsched.Plan{}
		}
		c.Plan["plugin/provider.go:runningStep.startStage#15:select"] = vsched.SitePlan{DelayMs: 60}
		c.Labels = append(c.Labels, "motif:stop-fires-before-start/late-receiver")
	}
}

func TestC04(t *testing.T) {
	p := detProfile()
	p.Name = "deterministic-mayrun"
	p.OutputsWaitAll = true
	p.Outcomes = []string{"success", "success", "error", "alt", "crash", "bad_output"}
	runProperty(t, "C04",
		func(rt *rapid.T) *vcase.Case {
			c := vcase.GenCase(rt, p, "C04")
			switch rapid.IntRange(0, 11).Draw(rt, "stopmotif?") {
			case 0, 1, 2:
				addStopMotif(c, false, rapid.SampledFrom([]string{"starting", "enabling", "deploy"}).Draw(rt, "stopmotif.where"))
			case 3:
				addStopMotif(c, true, "starting")
			}
			return c
		},
		func(st *Stats, c *vcase.Case) string {
			ans := RunCase(c.Request("run"))
			if ans.PrepareErr != "" {
				return "generated program rejected by Prepare (generator soundness): " + short(ans.PrepareErr, 400)
			}
			if owner, _ := anomaly(ans); owner != "" {
				st.ForeignAnomaly(owner, c)
				return ""
			}
			full := ans
			ans, ok := beforeShutdown(ans)
			if !ok {
				panic("harness failure: no shutdown-begin observation (binary built without schedule points?)")
			}
			_ = full
			for _, l := range c.Labels {
				if l == "motif:stop-fires-before-start" {
					timedOut := false
					for _, e := range full.Log {
						if e.Kind == "gate-timeout" && e.Key == "mx" {
							timedOut = true
						}
					}
					for _, k := range execStarts(full) {
						if k == "ms" && !timedOut {
							st.Record(c, true, c.Labels)
							trace := ""
							for _, e := range full.Log {
								if e.Phase == "run" && (e.Key == "ms" || e.Key == "mx" || e.Key == "my" || e.Key == "mz" || e.Key == "vp://ms" || e.Kind == "shutdown-begin") {
									trace += fmt.Sprintf(" %d:%s(%s)@%dus", e.Seq, e.Kind, e.Key, e.TUs)
								}
							}
							return "a step whose stop condition fired before it could start was started anyway; events:" + trace
						}
					}
				}
			}
			msg, forbidden := checkMayRun(refModels(c, ans), ans)
			st.Record(c, forbidden >= 1, append(c.Labels, fmt.Sprintf("steps-that-must-not-run:%d", min(forbidden, 5))))
			return msg
		})
}

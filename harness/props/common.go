//go:build verif

package props

import (
	"encoding/json"
	"fmt"
	"os"
	"sort"
	"strconv"
	"strings"
	"sync"
	"testing"

	"go.flow.arcalot.io/engine/internal/verif/vcase"
	"go.flow.arcalot.io/engine/internal/verif/vrun"
	"pgregory.net/rapid"
)

// Stats is what a shard reports to the driver.
type Stats struct {
	Property    string         `json:"property"`
	Evaluations int            `json:"evaluations"`
	Nontrivial  []string       `json:"nontrivial_hashes"`
	Labels      map[string]int `json:"labels"`
	Excluded    map[string]int `json:"excluded_by_finding"`
	Foreign     map[string]int `json:"foreign_anomaly"`
	Samples     []any          `json:"samples"`
	Violations  int            `json:"violations"`
	FailMsg     string         `json:"fail_msg,omitempty"`
	FailFile    string         `json:"fail_file,omitempty"`
	Extra       map[string]any `json:"extra,omitempty"`

	mu       sync.Mutex
	nt       map[uint64]struct{}
	bestFail []byte
	bestMsg  string
}

func newStats(prop string) *Stats {
	return &Stats{Property: prop, Labels: map[string]int{}, Excluded: map[string]int{}, Foreign: map[string]int{}, nt: map[uint64]struct{}{}, Extra: map[string]any{}}
}

// Record counts one executed case.
func (s *Stats) Record(c any, nontrivial bool, labels []string) {
	s.mu.Lock()
	defer s.mu.Unlock()
	s.Evaluations++
	if nontrivial {
		s.nt[vcase.Hash(c)] = struct{}{}
	}
	for _, l := range labels {
		s.Labels[l]++
	}
	if cc, ok := c.(*vcase.Case); ok && cc.Extra != nil {
		if ex, ok := cc.Extra["excluded"].(map[string]int); ok {
			for k, v := range ex {
				s.Excluded[k] += v
			}
		}
	}
	// keep first, and a few later samples
	if len(s.Samples) < 2 || (s.Evaluations%97 == 0 && len(s.Samples) < 5) {
		s.Samples = append(s.Samples, sampleOf(c))
	}
}

func sampleOf(c any) any {
	b, err := json.Marshal(c)
	if err != nil {
		return fmt.Sprint(c)
	}
	if len(b) > 6000 {
		return string(b[:6000]) + "...(truncated)"
	}
	var v any
	_ = json.Unmarshal(b, &v)
	return v
}

// Label counts a label without counting an evaluation.
func (s *Stats) Label(l string) {
	s.mu.Lock()
	s.Labels[l]++
	s.mu.Unlock()
}

// ForeignAnomaly counts a discarded case.
func (s *Stats) ForeignAnomaly(owner string, c ...any) {
	s.mu.Lock()
	s.Foreign[owner]++
	n := s.Foreign[owner]
	s.mu.Unlock()
	if dir := os.Getenv("VERIF_FOREIGN_DIR"); dir != "" && len(c) > 0 && n <= 3 {
		b, _ := json.MarshalIndent(map[string]any{"property": owner, "message": "foreign anomaly met by " + s.Property, "case": c[0]}, "", " ")
		_ = os.MkdirAll(dir, 0o755)
		_ = os.WriteFile(fmt.Sprintf("%s/%s-from-%s-%d-%d.json", dir, owner, s.Property, os.Getpid(), n), b, 0o644)
	}
}

// Fail remembers the smallest failing case; the caller then fails the rapid test.
func (s *Stats) Fail(c any, msg string) {
	b, _ := json.MarshalIndent(map[string]any{"property": s.Property, "message": msg, "case": c}, "", " ")
	s.mu.Lock()
	if s.bestFail == nil || len(b) <= len(s.bestFail) {
		s.bestFail = b
		s.bestMsg = msg
	}
	s.mu.Unlock()
}

func (s *Stats) flush() {
	s.mu.Lock()
	defer s.mu.Unlock()
	s.Nontrivial = s.Nontrivial[:0]
	for h := range s.nt {
		s.Nontrivial = append(s.Nontrivial, strconv.FormatUint(h, 16))
	}
	sort.Strings(s.Nontrivial)
	if s.bestFail != nil {
		s.Violations = 1
		s.FailMsg = s.bestMsg
		if p := os.Getenv("VERIF_FAIL_OUT"); p != "" {
			_ = os.WriteFile(p, s.bestFail, 0o644)
			s.FailFile = p
		}
	}
	if p := os.Getenv("VERIF_STATS_OUT"); p != "" {
		b, _ := json.Marshal(s)
		_ = os.WriteFile(p, b, 0o644)
	}
}

func tier() string {
	if t := os.Getenv("VERIF_TIER"); t != "" {
		return t
	}
	return "quick"
}

func envInt(k string, d int) int {
	if v := os.Getenv(k); v != "" {
		if n, err := strconv.Atoi(v); err == nil {
			return n
		}
	}
	return d
}

// runProperty drives a property either from a replay file or through rapid.
// gen draws a case; check executes it and returns a failure message ("" = ok).
func runProperty[C any](t *testing.T, prop string, gen func(*rapid.T) C, check func(st *Stats, c C) string) {
	st := newStats(prop)
	defer st.flush()
	if rp := os.Getenv("VERIF_REPLAY"); rp != "" {
		raw, err := os.ReadFile(rp)
		if err != nil {
			t.Fatalf("cannot read replay file: %v", err)
		}
		var wrap struct {
			Case json.RawMessage `json:"case"`
			// Repeat re-executes a schedule-dependent reproducer this many times (default 1).
			Repeat int `json:"repeat"`
		}
		if err := json.Unmarshal(raw, &wrap); err != nil || wrap.Case == nil {
			t.Fatalf("bad replay file %s: %v", rp, err)
		}
		var c C
		if err := json.Unmarshal(wrap.Case, &c); err != nil {
			t.Fatalf("bad replay case: %v", err)
		}
		for i := 0; i < max(1, wrap.Repeat); i++ {
			if msg := check(st, c); msg != "" {
				st.Fail(c, msg)
				t.Fatalf("REPLAY-FAIL %s: %s", prop, msg)
			}
		}
		fmt.Printf("REPLAY-OK %s\n", prop)
		return
	}
	rapid.Check(t, func(rt *rapid.T) {
		c := gen(rt)
		if msg := check(st, c); msg != "" {
			st.Fail(c, msg)
			rt.Fatalf("%s: %s", prop, msg)
		}
	})
}

// anomaly classifies worker-level anomalies and names the owning property ("" = none).
func anomaly(ans *vrun.Answer) (owner, detail string) {
	defer func() {
		if dir := os.Getenv("VERIF_FOREIGN_DIR"); dir != "" && owner != "" {
			_ = os.MkdirAll(dir, 0o755)
			if f, err := os.OpenFile(fmt.Sprintf("%s/anomalies-%d.log", dir, os.Getpid()), os.O_APPEND|os.O_CREATE|os.O_WRONLY, 0o644); err == nil {
				fmt.Fprintf(f, "=== %s\n%s\n", owner, short(detail, 6000))
				f.Close()
			}
		}
	}()
	switch {
	case ans.ProcessDeath != "" && strings.Contains(ans.ProcessDeath, "send on closed channel") && strings.Contains(ans.ProcessDeath, "atp.(*atpServerSession).runStep"):
		// panic of the SDK's plugin-side server (it lives in the worker only in this harness)
		return "HARNESS-plugin-side-panic", ans.ProcessDeath
	case ans.ProcessDeath != "":
		return "C07", "process death: " + ans.ProcessDeath
	case ans.Panic != "":
		return "C07", "panic in Execute: " + ans.Panic
	case ans.PreparePanic != "":
		return "C11", "panic in Prepare: " + ans.PreparePanic
	case ans.Hang != nil:
		return "C01", "hang"
	}
	if ans.Returned != nil && strings.Contains(ans.Returned.Err, "bug:") {
		return "C08", "bug error: " + ans.Returned.Err
	}
	if len(ans.Leaks) > 0 || (ans.Returned != nil && ans.DeploysRun != ans.ClosesRun) {
		return "C05", fmt.Sprintf("leak: %d goroutines, deploys=%d closes=%d", len(ans.Leaks), ans.DeploysRun, ans.ClosesRun)
	}
	return "", ""
}

const fallbackText = "no steps running, no more executable steps"

// fallbackRepeats re-runs a case whose run ended with the fallback verdict although the reference says
// an output is producible (up to three times). The time-based detector can misfire on a loaded
// machine (C09 / finding K6r), so one such answer proves nothing; a verdict that comes again tells a
// run that cannot deliver its producible output from a rare misfire. It returns the repeated error.
func fallbackRepeats(c *vcase.Case) string {
	for i := 0; i < 3; i++ {
		again := RunCase(c.Request("run"))
		if owner, _ := anomaly(again); owner != "" {
			return ""
		}
		if again.Returned != nil && strings.Contains(again.Returned.Err, fallbackText) {
			return again.Returned.Err
		}
	}
	return ""
}

// execStarts returns the keys with an exec-start event in the run phase, in order.
func execStarts(ans *vrun.Answer) []string {
	var out []string
	for _, e := range ans.Log {
		if e.Kind == "exec-start" {
			out = append(out, e.Key)
		}
	}
	return out
}

func short(s string, n int) string {
	if len(s) > n {
		return s[:n] + "..."
	}
	return s
}

type returned = vrun.Returned

// observedOutcomes reads, from the plugin log only, which executions were interrupted by a cancel
// signal or a closed connection and what they answered. Keys are behaviour keys. These observed
// outcomes replace the scripted ones in the reference ("given the outcomes of the steps").
func observedOutcomes(ans *vrun.Answer) map[string]string {
	interrupted := map[string]bool{}
	obs := map[string]string{}
	for _, e := range ans.Log {
		switch e.Kind {
		case "signal", "ctx-done":
			interrupted[e.Key] = true
		case "deploy-fail":
			if e.Phase == "run" {
				obs["deploy-fail:"+e.Key] = "1" // e.g. a deployment aborted by the cancellation
			}
		case "exec-end":
			if interrupted[e.Key] {
				if pl, ok := e.Payload.(map[string]any); ok {
					if id, _ := pl["output_id"].(string); id == "alt" {
						obs[e.Key] = "cancelled_alt"
					}
				}
			}
		}
	}
	return obs
}

// refModels returns the reference evaluated (a) with the scripted outcomes, corrected by the
// observed outcomes of interrupted executions, and (b) additionally assuming that every plugin
// step that never executed was closed while waiting when the run shut down (which produces its
// closed.result). What happens during shutdown is admissible under either.
func refModels(c *vcase.Case, ans *vrun.Answer) []*vcase.Model {
	obs := observedOutcomes(ans)
	in := vcase.NormalizeInput(c.Main, c.InputDoc)
	base := vcase.NewModel(c.Main, c.Subs, in, c.Script, obs)
	obs2 := map[string]string{}
	for k, v := range obs {
		obs2[k] = v
	}
	started := map[string]bool{}
	for _, k := range execStarts(ans) {
		started[k] = true
	}
	any := false
	for _, s := range c.Main.Steps {
		if (s.Kind == "plugin" || s.Kind == "") && !started[s.ID] {
			obs2["closed-at-shutdown:"+s.ID] = "1"
			any = true
		}
	}
	if !any {
		return []*vcase.Model{base}
	}
	return []*vcase.Model{base, vcase.NewModel(c.Main, c.Subs, in, c.Script, obs2)}
}

// beforeShutdown returns a copy of the answer whose log ends where the top-level run began to
// shut its steps down (event "shutdown-begin", logged from the schedule point at the entry of
// the run loop's terminate function). ok=false if the observation point was not hit although the
// run returned (the binary has no schedule points): the caller must treat that as infrastructure
// failure, not as a pass.
func beforeShutdown(ans *vrun.Answer) (*vrun.Answer, bool) {
	for i, e := range ans.Log {
		if e.Kind == "shutdown-begin" {
			cp := *ans
			cp.Log = ans.Log[:i]
			return &cp, true
		}
	}
	return ans, false
}

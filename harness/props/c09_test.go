//go:build verif

package props

import (
	"encoding/json"
	"fmt"
	"hash/fnv"
	"os"
	"sort"
	"strings"
	"testing"

	"go.flow.arcalot.io/engine/internal/verif/vcase"
	"go.flow.arcalot.io/engine/internal/verif/vsched"
	"pgregory.net/rapid"
)

// allSites reads the schedule points the instrumenter inserted into the current sources.
func allSites(t *testing.T) []string {
	raw, err := os.ReadFile("build/sites.json")
	if err != nil {
		t.Fatalf("cannot read build/sites.json (the check must run from /verif with a sched binary): %v", err)
	}
	var m map[string][]string
	if err := json.Unmarshal(raw, &m); err != nil {
		t.Fatal(err)
	}
	var out []string
	for _, l := range m {
		out = append(out, l...)
	}
	sort.Strings(out)
	if len(out) < 50 {
		t.Fatalf("only %d schedule points found: instrumentation looks broken", len(out))
	}
	return out
}

func clonePlanCase(c *vcase.Case, plan vsched.Plan) *vcase.Case {
	cp := *c
	cp.Plan = plan
	return &cp
}

// checkSchedule runs a case under its plan and compares with the reference.
func checkSchedule(st *Stats, c *vcase.Case) string {
	m := vcase.NewModel(c.Main, c.Subs, vcase.NormalizeInput(c.Main, c.InputDoc), c.Script, nil)
	if len(m.Producible()) > 1 {
		st.Label("skipped-several-producible")
		return ""
	}
	ans := RunCase(c.Request("run"))
	if ans.PrepareErr != "" {
		return "generated program rejected by Prepare (generator soundness): " + short(ans.PrepareErr, 400)
	}
	if owner, detail := anomaly(ans); owner != "" {
		if owner == "C01" && ans.HangBlocked && len(c.Plan) > 0 {
			// a delay cannot make a correct program block for ever: the run under this plan never ends
			st.Record(c, true, c.Labels)
			return "the run did not return under the delay plan (all engine goroutines blocked: " + short(detail, 200) + "); case " + c.Profile + "; delays: " + planString(c.Plan)
		}
		if owner == "C07" && ans.ProcessDeath != "" && len(c.Plan) > 0 {
			// nor can a delay make it die: the process ended instead of returning the single result
			st.Record(c, true, c.Labels)
			return "the process died under the delay plan instead of returning the workflow's single result (" + short(detail, 300) + "); case " + c.Profile + "; delays: " + planString(c.Plan)
		}
		st.ForeignAnomaly(owner, c)
		return ""
	}
	hits := 0
	for site := range c.Plan {
		hits += ans.SiteHits[site]
	}
	st.Record(c, hits > 0 || len(c.Plan) == 0, append(append([]string{}, c.Labels...), fmt.Sprintf("plan-sites:%d", min(len(c.Plan), 7)), fmt.Sprintf("site-hit:%v", hits > 0)))
	if msg := checkResult(c, m, (*returned)(ans.Returned)); msg != "" {
		if ans.Returned.Err != "" && strings.Contains(ans.Returned.Err, fallbackText) {
			return "the engine reported that no step can make progress although the workflow's single result is producible; case " + c.Profile + "; delays: " + planString(c.Plan)
		}
		return "result under the delay plan differs from the workflow's single result (" + planString(c.Plan) + "): " + msg
	}
	return ""
}

func planString(p vsched.Plan) string {
	var parts []string
	for s, sp := range p {
		parts = append(parts, fmt.Sprintf("%s +%dms", s, sp.DelayMs))
	}
	sort.Strings(parts)
	return strings.Join(parts, ", ")
}

func hash32(s string) uint32 {
	h := fnv.New32a()
	_, _ = h.Write([]byte(s))
	return h.Sum32()
}

// TestC09 = (1) single-site sweep over canonical motifs (enumeration, sharded), (2) random
// multi-site plans over random deterministic programs (rapid).
func TestC09(t *testing.T) {
	if os.Getenv("VERIF_REPLAY") != "" {
		runProperty(t, "C09", func(rt *rapid.T) *vcase.Case { return nil }, checkSchedule)
		return
	}
	st := newStats("C09")
	defer st.flush()
	sites, partialKnown, knownExcluded := dropKnownSites(allSites(t))
	motifs := vcase.Motifs()
	st.mu.Lock()
	st.Excluded["K6r:known-site"] += knownExcluded
	st.mu.Unlock()
	shard, shards := envInt("VERIF_SHARD", 0), envInt("VERIF_SHARDS", 1)
	seed := os.Getenv("VERIF_SEED")
	// every site in both tiers (the whole sweep takes under a minute); VERIF_C09_SAMPLE=n visits a
	// VERIF_SEED-chosen n-th of the sites instead
	sample := envInt("VERIF_C09_SAMPLE", 1)
	if sample < 1 {
		sample = 1
	}
	pairs, total := 0, 0
	// the empty plan first: the instrumented binary behaves like the plain one
	for mi, mc := range motifs {
		if mi%shards != shard {
			continue
		}
		if msg := checkSchedule(st, clonePlanCase(mc, nil)); msg != "" {
			st.Fail(clonePlanCase(mc, nil), msg)
			t.Fatalf("C09 (empty plan, %s): %s", mc.Profile, msg)
		}
	}
	// how often does each motif pass each site? (undisturbed run that counts every site)
	hitsOf := make([]map[string]int, len(motifs))
	for mi, mc := range motifs {
		hitsOf[mi] = RunCase(clonePlanCase(mc, vsched.Plan{"*": {}}).Request("run")).SiteHits
	}
	skippedUnhit, knownVariants := 0, 0
	for si, site := range sites {
		if sample > 1 && hash32(seed+"/"+site)%uint32(sample) != 0 {
			continue
		}
		for mi, mc := range motifs {
			total++
			if (si*len(motifs)+mi)%shards != shard {
				continue
			}
			h := hitsOf[mi][site]
			if h == 0 {
				skippedUnhit++ // the motif never passes this site
				continue
			}
			// the first three passes; the last pass (completion paths); every pass when there are few
			variants := []vsched.SitePlan{{DelayMs: 60, First: 3}}
			if h > 3 {
				if partialKnown[site]["last@"+mc.Profile] {
					knownVariants++
				} else {
					variants = append(variants, vsched.SitePlan{DelayMs: 60, Nth: h})
				}
			}
			if h > 3 && h <= 12 {
				if partialKnown[site]["all@"+mc.Profile] {
					knownVariants++
				} else {
					variants = append(variants, vsched.SitePlan{DelayMs: 40})
				}
			}
			for _, sp := range variants {
				pairs++
				c := clonePlanCase(mc, vsched.Plan{site: sp})
				if msg := checkSchedule(st, c); msg != "" {
					st.Fail(c, msg)
					if os.Getenv("VERIF_C09_COLLECT") != "" {
						fmt.Printf("C09-FAIL\t%s\t%s\t%+v\t%s\n", mc.Profile, site, sp, short(msg, 120))
						continue
					}
					t.Fatalf("C09 (%s, site %s, %+v): %s", mc.Profile, site, sp, msg)
				}
			}
		}
	}
	st.mu.Lock()
	st.Extra["pairs_skipped_site_never_hit"] = skippedUnhit
	st.Excluded["K6r:known-site-variant"] += knownVariants
	st.mu.Unlock()
	// the random plans stay away from partially known sites
	var randomSites []string
	for _, s := range sites {
		if partialKnown[s] == nil {
			randomSites = append(randomSites, s)
		}
	}
	st.mu.Lock()
	st.Extra["sweep_pairs"] = pairs
	st.Extra["sites_total"] = len(sites)
	st.Extra["motifs"] = len(motifs)
	st.Extra["exhaustive"] = sample == 1
	st.mu.Unlock()
	// random multi-site plans on random deterministic programs
	p := detProfile()
	p.Name = "deterministic-single-result"
	p.MaxOutputs = 1
	p.MaxSteps = 5
	rapid.Check(t, func(rt *rapid.T) {
		c := vcase.GenCase(rt, p, "C09")
		n := rapid.IntRange(1, 6).Draw(rt, "plan.n")
		c.Plan = vsched.Plan{}
		for i := 0; i < n; i++ {
			s := randomSites[rapid.IntRange(0, len(randomSites)-1).Draw(rt, fmt.Sprintf("plan.site%d", i))]
			c.Plan[s] = vsched.SitePlan{DelayMs: rapid.IntRange(1, 40).Draw(rt, fmt.Sprintf("plan.delay%d", i)), First: rapid.IntRange(0, 3).Draw(rt, fmt.Sprintf("plan.first%d", i))}
		}
		c.Labels = append(c.Labels, "random-multi-site-plan")
		if msg := checkSchedule(st, c); msg != "" {
			st.Fail(c, msg)
			rt.Fatalf("C09: %s", msg)
		}
	})
}

// TestC09Emit writes a replay file for one (motif, site) pair: VERIF_EMIT="motif|site|path".
func TestC09Emit(t *testing.T) {
	spec := os.Getenv("VERIF_EMIT")
	if spec == "" {
		t.Skip()
	}
	parts := strings.Split(spec, "|")
	for _, mc := range vcase.Motifs() {
		if mc.Profile == "motif:"+parts[0] {
			c := clonePlanCase(mc, vsched.Plan{parts[1]: {DelayMs: 60, First: 3}})
			b, _ := json.MarshalIndent(map[string]any{"property": "C09", "message": "single-site delay of 60 ms (first 3 hits) at " + parts[1] + " on motif " + parts[0], "case": c}, "", " ")
			if err := os.WriteFile(parts[2], b, 0o644); err != nil {
				t.Fatal(err)
			}
			return
		}
	}
	t.Fatalf("unknown motif %s", parts[0])
}

// dropKnownSites removes the schedule points listed by the open finding K6r. An entry "site" drops the
// site altogether; "site|last@motif" / "site|all@motif" drop only that delay variant of the sweep for
// that motif (such a site is also kept out of the random plans). The second result maps the partially known sites to their
// dropped variants.
func dropKnownSites(sites []string) ([]string, map[string]map[string]bool, int) {
	partial := map[string]map[string]bool{}
	raw, err := os.ReadFile("known_findings.json")
	if err != nil {
		return sites, partial, 0
	}
	var kf struct {
		Findings []struct {
			Status     string   `json:"status"`
			ID         string   `json:"id"`
			KnownSites []string `json:"known_sites"`
		} `json:"findings"`
	}
	if json.Unmarshal(raw, &kf) != nil {
		return sites, partial, 0
	}
	known := map[string]bool{}
	for _, f := range kf.Findings {
		if f.Status == "open" {
			for _, s := range f.KnownSites {
				if i := strings.Index(s, "|"); i >= 0 {
					if partial[s[:i]] == nil {
						partial[s[:i]] = map[string]bool{}
					}
					partial[s[:i]][s[i+1:]] = true
				} else {
					known[s] = true
				}
			}
		}
	}
	var out []string
	n := 0
	for _, s := range sites {
		if known[s] {
			n++
			continue
		}
		out = append(out, s)
	}
	return out, partial, n
}

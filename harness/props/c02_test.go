//go:build verif

package props

import (
	"fmt"
	"strings"
	"testing"

	"go.flow.arcalot.io/engine/internal/verif/vcase"
	"go.flow.arcalot.io/engine/internal/verif/vrun"
	"pgregory.net/rapid"
)

// expectation of one plugin execution according to the reference.
type execExpect struct {
	input     map[string]any
	producers []string // behaviour keys whose exec-end must precede
	tag       *string
	src       string
}

func stepRefs(s *vcase.Step) []vcase.Ref {
	var refs []vcase.Ref
	var walk func(x *vcase.Val)
	walk = func(x *vcase.Val) {
		if x == nil {
			return
		}
		switch x.K {
		case "expr":
			x.Expr.Refs(&refs)
		case "map", "list":
			for _, c := range x.Vals {
				walk(c)
			}
		}
		// oneof / ordisabled / optional leaves do not require every source to have been produced
	}
	for _, v := range []*vcase.Val{s.Input, s.WaitFor, s.Enabled, s.DeployTag, s.ClosureTimeoutMs, s.Items, s.Parallelism} {
		walk(v)
	}
	return refs
}

// producerKeys lists behaviour keys that must have finished before a consumer referring to r starts.
func producerKeys(m *vcase.Model, r vcase.Ref) []string {
	if r.Input || m.Nodes[r.NodeID()] != vcase.Produced {
		return nil
	}
	if r.Stage != "outputs" && r.Stage != "crashed" && r.Stage != "failed" {
		return nil
	}
	p := m.Prog.StepByID(r.Step)
	if p == nil {
		return nil
	}
	f := m.Fates[r.Step]
	if p.Kind == "foreach" {
		var keys []string
		for _, im := range f.ItemModels {
			for _, sf := range im.Fates {
				if sf.MustRun && sf.ExpectedInput != nil {
					if k, ok := sf.ExpectedInput["key"].(string); ok {
						keys = append(keys, k)
					}
				}
			}
		}
		return keys
	}
	if f != nil && f.MustRun && f.ExpectedInput != nil {
		if k, ok := f.ExpectedInput["key"].(string); ok {
			return []string{k}
		}
	}
	return nil
}

func collectExpect(m *vcase.Model, out map[string]*execExpect) {
	for _, s := range m.Prog.Steps {
		f := m.Fates[s.ID]
		if f == nil {
			continue
		}
		switch s.Kind {
		case "plugin", "":
			if !f.MayRun || f.ExpectedInput == nil {
				continue
			}
			key, _ := f.ExpectedInput["key"].(string)
			e := &execExpect{input: f.ExpectedInput, tag: f.ExpectedTag, src: s.Src}
			if e.src == "" {
				e.src = "vp://" + s.ID
			}
			for _, r := range stepRefs(s) {
				e.producers = append(e.producers, producerKeys(m, r)...)
			}
			out[key] = e
		case "foreach":
			var prods []string
			for _, r := range stepRefs(s) {
				prods = append(prods, producerKeys(m, r)...)
			}
			for _, im := range f.ItemModels {
				sub := map[string]*execExpect{}
				collectExpect(im, sub)
				for k, e := range sub {
					e.producers = append(e.producers, prods...)
					out[k] = e
				}
			}
		}
	}
}

// checkDataflow is the C02 oracle over the event log.
func checkDataflow(m *vcase.Model, ans *vrun.Answer) (msg string, consumers int) {
	exp := map[string]*execExpect{}
	collectExpect(m, exp)
	endSeq := map[string]int64{}
	startSeq := map[string]int64{}
	for _, e := range ans.Log {
		if e.Phase != "run" {
			continue
		}
		switch e.Kind {
		case "exec-end":
			endSeq[e.Key] = e.Seq
		case "exec-start":
			if _, dup := startSeq[e.Key]; dup {
				return fmt.Sprintf("plugin of %q executed twice in one run", e.Key), consumers
			}
			startSeq[e.Key] = e.Seq
			x, ok := exp[e.Key]
			if !ok {
				continue // C04's business
			}
			if d := vcase.Match(x.input, e.Payload); d != "" {
				return fmt.Sprintf("step %q received an input that differs from its expressions evaluated over what the producers emitted: %s", e.Key, d), consumers
			}
			if len(x.producers) > 0 {
				consumers++
			}
			for _, p := range x.producers {
				es, ok := endSeq[p]
				if !ok || es > e.Seq {
					return fmt.Sprintf("step %q started (seq %d) before producer %q had finished", e.Key, e.Seq, p), consumers
				}
			}
		}
	}
	// deploy-time expressions
	for key, x := range exp {
		if x.tag == nil {
			continue
		}
		for _, e := range ans.Log {
			if e.Phase == "run" && e.Kind == "deploy-begin" && e.Key == x.src {
				pl, _ := e.Payload.(map[string]any)
				if got, _ := pl["tag"].(string); got != *x.tag {
					return fmt.Sprintf("step %q was deployed with tag %q, expected %q", key, got, *x.tag), consumers
				}
			}
		}
	}
	return "", consumers
}

func TestC02(t *testing.T) {
	p := detProfile()
	p.Name = "deterministic-dataflow"
	p.Outcomes = []string{"success", "success", "success", "success", "success", "success", "error", "alt", "crash"}
	p.MaxDelayMs = 25
	p.PreferProduced = 95
	p.OutputsWaitAll = true
	runProperty(t, "C02",
		func(rt *rapid.T) *vcase.Case { return vcase.GenCase(rt, p, "C02") },
		func(st *Stats, c *vcase.Case) string {
			ans := RunCase(c.Request("run"))
			if ans.PrepareErr != "" {
				return "generated program rejected by Prepare (generator soundness): " + short(ans.PrepareErr, 400)
			}
			if owner, _ := anomaly(ans); owner != "" {
				st.ForeignAnomaly(owner, c)
				return ""
			}
			full := ans
			ans, ok := beforeShutdown(ans)
			if !ok {
				panic("harness failure: no shutdown-begin observation (binary built without schedule points?)")
			}
			// The profile draws no expression whose evaluation can fail over produced data (no faults,
			// no optional fields, no malformed plugin outputs): if the engine reports that it could not
			// resolve the expressions of a step stage it tried to build the stage's input before the
			// data its expressions refer to existed (a missing dependency edge under this schedule).
			if full.Returned != nil && strings.Contains(full.Returned.Err, "cannot resolve expressions for steps.") {
				st.Record(c, true, c.Labels)
				return "the engine built the input of a step stage before everything its expressions refer to was produced: " + short(full.Returned.Err, 400)
			}
			ms := refModels(c, ans)
			msg, consumers := checkDataflow(ms[0], ans)
			if msg != "" && len(ms) > 1 {
				if msg2, c2 := checkDataflow(ms[1], ans); msg2 == "" {
					msg, consumers = "", c2
					st.Label("explained-by-shutdown-model")
				}
			}
			st.Record(c, consumers >= 1, append(c.Labels, fmt.Sprintf("consumers-with-step-deps:%d", min(consumers, 5))))
			return msg
		})
}

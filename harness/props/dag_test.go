//go:build verif

package props

import (
	"encoding/json"
	"fmt"
	"os"
	"testing"

	"go.flow.arcalot.io/engine/internal/verif/vcase"
)

// TestDumpDAG prints the engine's DAG for a replay case (development aid).
func TestDumpDAG(t *testing.T) {
	rp := os.Getenv("VERIF_DAG")
	if rp == "" {
		t.Skip()
	}
	raw, _ := os.ReadFile(rp)
	var wrap struct {
		Case *vcase.Case `json:"case"`
	}
	if err := json.Unmarshal(raw, &wrap); err != nil {
		t.Fatal(err)
	}
	req := wrap.Case.Request("prepare")
	req.WantDAG = true
	fmt.Println(req.Main)
	ans := RunCase(req)
	if ans.PrepareErr != "" {
		fmt.Println("PREPARE ERROR:", ans.PrepareErr)
		return
	}
	for _, n := range ans.DAG.Nodes {
		fmt.Println("N", n)
	}
	for _, e := range ans.DAG.Edges {
		fmt.Println("E", e)
	}
}

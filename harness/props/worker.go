//go:build verif

package props

import (
	"bufio"
	"encoding/binary"
	"encoding/json"
	"fmt"
	"io"
	"os"
	"os/exec"
	"strings"
	"sync"
	"syscall"
	"time"

	"go.flow.arcalot.io/engine/internal/verif/vrun"
)

// Envelope is the wire format between parent and worker.
type Envelope struct {
	Kind string          `json:"kind"`
	Body json.RawMessage `json:"body"`
}

func writeFrame(w io.Writer, v any) error {
	b, err := json.Marshal(v)
	if err != nil {
		return err
	}
	var hdr [4]byte
	binary.BigEndian.PutUint32(hdr[:], uint32(len(b)))
	if _, err := w.Write(hdr[:]); err != nil {
		return err
	}
	_, err = w.Write(b)
	return err
}

func readFrame(r io.Reader, v any) error {
	var hdr [4]byte
	if _, err := io.ReadFull(r, hdr[:]); err != nil {
		return err
	}
	n := binary.BigEndian.Uint32(hdr[:])
	buf := make([]byte, n)
	if _, err := io.ReadFull(r, buf); err != nil {
		return err
	}
	return json.Unmarshal(buf, v)
}

// WorkerMain is the exported worker loop (used by the worker built from package main, C20).
func WorkerMain() { workerMain() }

// RegisterHandler adds a request kind.
func RegisterHandler(kind string, f func(json.RawMessage) (any, error)) { handlers[kind] = f }

// workerMain is the loop of the worker process: fd 3 = requests, fd 4 = answers.
func workerMain() {
	in := bufio.NewReader(os.NewFile(3, "req"))
	out := os.NewFile(4, "ans")
	if lim := os.Getenv("VERIF_RLIMIT_AS_MB"); lim != "" {
		var mb uint64
		fmt.Sscan(lim, &mb)
		if mb > 0 {
			_ = syscall.Setrlimit(syscall.RLIMIT_AS, &syscall.Rlimit{Cur: mb << 20, Max: mb << 20})
		}
	}
	for {
		var env Envelope
		if err := readFrame(in, &env); err != nil {
			return
		}
		ans := handle(&env)
		if err := writeFrame(out, ans); err != nil {
			return
		}
	}
}

// handlers maps request kinds to in-worker functions.
var handlers = map[string]func(json.RawMessage) (any, error){
	"run": func(b json.RawMessage) (any, error) {
		var req vrun.Request
		if err := json.Unmarshal(b, &req); err != nil {
			return nil, err
		}
		return vrun.Run(&req), nil
	},
	"engine": func(b json.RawMessage) (any, error) {
		var req vrun.EngineRequest
		if err := json.Unmarshal(b, &req); err != nil {
			return nil, err
		}
		return vrun.RunEngine(&req), nil
	},
	"multi": func(b json.RawMessage) (any, error) {
		var req vrun.MultiRequest
		if err := json.Unmarshal(b, &req); err != nil {
			return nil, err
		}
		return vrun.RunMulti(&req), nil
	},
	"c12": func(b json.RawMessage) (any, error) {
		var req vrun.C12Request
		if err := json.Unmarshal(b, &req); err != nil {
			return nil, err
		}
		return vrun.RunC12(&req), nil
	},
	"func": func(b json.RawMessage) (any, error) {
		var req vrun.FuncRequest
		if err := json.Unmarshal(b, &req); err != nil {
			return nil, err
		}
		return vrun.CallFunc(&req), nil
	},
}

func handle(env *Envelope) any {
	h, ok := handlers[env.Kind]
	if !ok {
		return map[string]any{"harness_error": "unknown kind " + env.Kind}
	}
	ans, err := h(env.Body)
	if err != nil {
		return map[string]any{"harness_error": err.Error()}
	}
	return ans
}

// Worker is the parent's handle on a worker process.
type Worker struct {
	// Bin is the worker binary (default: this binary).
	Bin    string
	mu     sync.Mutex
	cmd    *exec.Cmd
	reqW   *os.File
	ansR   *os.File
	stderr *tailBuffer
	served int
}

type tailBuffer struct {
	mu  sync.Mutex
	buf []byte
}

func (t *tailBuffer) Write(p []byte) (int, error) {
	t.mu.Lock()
	t.buf = append(t.buf, p...)
	if len(t.buf) > 64*1024 {
		t.buf = t.buf[len(t.buf)-48*1024:]
	}
	t.mu.Unlock()
	return len(p), nil
}

func (t *tailBuffer) String() string {
	t.mu.Lock()
	defer t.mu.Unlock()
	return string(t.buf)
}

func (w *Worker) start() error {
	reqR, reqW, err := os.Pipe()
	if err != nil {
		return err
	}
	ansR, ansW, err := os.Pipe()
	if err != nil {
		return err
	}
	bin := os.Args[0]
	if w.Bin != "" {
		bin = w.Bin
	}
	cmd := exec.Command(bin, "-test.run", "^TestWorker$", "-test.timeout", "0")
	cmd.Env = append(os.Environ(), "VERIF_WORKER=1", "GOMAXPROCS="+envOr("VERIF_WORKER_PROCS", "4"))
	cmd.ExtraFiles = []*os.File{reqR, ansW}
	w.stderr = &tailBuffer{}
	cmd.Stderr = w.stderr
	cmd.Stdout = w.stderr
	if err := cmd.Start(); err != nil {
		return err
	}
	reqR.Close()
	ansW.Close()
	w.cmd, w.reqW, w.ansR, w.served = cmd, reqW, ansR, 0
	return nil
}

func envOr(k, d string) string {
	if v := os.Getenv(k); v != "" {
		return v
	}
	return d
}

func (w *Worker) stop() {
	if w.cmd == nil {
		return
	}
	w.reqW.Close()
	done := make(chan struct{})
	go func() { _ = w.cmd.Wait(); close(done) }()
	select {
	case <-done:
	case <-time.After(2 * time.Second):
		_ = w.cmd.Process.Kill()
		<-done
	}
	w.ansR.Close()
	w.cmd = nil
}

// CallError reports that the worker died or wedged.
type CallError struct {
	Death   string // non-empty: the process vanished; exit status + stderr tail
	Wedged  bool
	Harness string
}

func (e *CallError) Error() string {
	return fmt.Sprintf("worker call failed: death=%q wedged=%v harness=%q", e.Death, e.Wedged, e.Harness)
}

// Call sends a request and decodes the answer into out. backstop bounds the whole call.
func (w *Worker) Call(kind string, req any, out any, backstop time.Duration) *CallError {
	w.mu.Lock()
	defer w.mu.Unlock()
	if w.cmd != nil && w.served >= 200 {
		w.stop()
	}
	if w.cmd == nil {
		if err := w.start(); err != nil {
			return &CallError{Harness: "cannot start worker: " + err.Error()}
		}
	}
	w.served++
	body, err := json.Marshal(req)
	if err != nil {
		return &CallError{Harness: "marshal: " + err.Error()}
	}
	if err := writeFrame(w.reqW, Envelope{Kind: kind, Body: body}); err != nil {
		return w.death("write request: " + err.Error())
	}
	type res struct {
		raw json.RawMessage
		err error
	}
	ch := make(chan res, 1)
	go func() {
		var raw json.RawMessage
		err := readFrame(w.ansR, &raw)
		ch <- res{raw, err}
	}()
	select {
	case r := <-ch:
		if r.err != nil {
			return w.death("read answer: " + r.err.Error())
		}
		var probe map[string]json.RawMessage
		if json.Unmarshal(r.raw, &probe) == nil {
			if he, ok := probe["harness_error"]; ok {
				return &CallError{Harness: string(he)}
			}
		}
		if err := json.Unmarshal(r.raw, out); err != nil {
			return &CallError{Harness: "unmarshal answer: " + err.Error()}
		}
		return nil
	case <-time.After(backstop):
		_ = w.cmd.Process.Signal(syscall.SIGQUIT)
		time.Sleep(500 * time.Millisecond)
		tail := w.stderr.String()
		_ = w.cmd.Process.Kill()
		w.stop()
		return &CallError{Wedged: true, Death: "backstop expired; SIGQUIT dump:\n" + lastBytes(tail, 16000)}
	}
}

func (w *Worker) death(what string) *CallError {
	state := ""
	done := make(chan struct{})
	go func() { _ = w.cmd.Wait(); close(done) }()
	select {
	case <-done:
		state = w.cmd.ProcessState.String()
	case <-time.After(3 * time.Second):
		_ = w.cmd.Process.Kill()
		<-done
		state = "killed after " + what
	}
	tail := w.stderr.String()
	w.reqW.Close()
	w.ansR.Close()
	w.cmd = nil
	return &CallError{Death: what + "; " + state + "\n" + panicExcerpt(tail)}
}

func lastBytes(s string, n int) string {
	if len(s) > n {
		return s[len(s)-n:]
	}
	return s
}

// panicExcerpt extracts the panic / fatal error message and the first frames from stderr.
func panicExcerpt(stderr string) string {
	idx := strings.Index(stderr, "panic: ")
	if i := strings.Index(stderr, "fatal error: "); i >= 0 && (idx < 0 || i < idx) {
		idx = i
	}
	if idx < 0 {
		return lastBytes(stderr, 3000)
	}
	s := stderr[idx:]
	if len(s) > 4000 {
		s = s[:4000]
	}
	return s
}

var sharedWorker = &Worker{}

// RunCase sends a run request to the shared worker.
func RunCase(req *vrun.Request) *vrun.Answer {
	ans := &vrun.Answer{}
	wd := time.Duration(req.WatchdogMs) * time.Millisecond
	if wd <= 0 {
		wd = 20 * time.Second
	}
	if cerr := sharedWorker.Call("run", req, ans, wd+15*time.Second); cerr != nil {
		if cerr.Harness != "" {
			panic("harness failure: " + cerr.Harness)
		}
		return &vrun.Answer{ProcessDeath: cerr.Death}
	}
	return ans
}

// CallFunction sends a built-in function call to the shared worker.
func CallFunction(req *vrun.FuncRequest) *vrun.FuncAnswer {
	ans := &vrun.FuncAnswer{}
	if cerr := sharedWorker.Call("func", req, ans, 30*time.Second); cerr != nil {
		if cerr.Harness != "" {
			panic("harness failure: " + cerr.Harness)
		}
		return &vrun.FuncAnswer{ProcessDeath: cerr.Death}
	}
	return ans
}

// CallEngine sends an engine-API request to the shared worker.
func CallEngine(req *vrun.EngineRequest) *vrun.EngineAnswer {
	ans := &vrun.EngineAnswer{}
	wd := time.Duration(req.WatchdogMs) * time.Millisecond
	if wd <= 0 {
		wd = 15 * time.Second
	}
	if cerr := sharedWorker.Call("engine", req, ans, wd+15*time.Second); cerr != nil {
		if cerr.Harness != "" {
			panic("harness failure: " + cerr.Harness)
		}
		return &vrun.EngineAnswer{ProcessDeath: cerr.Death}
	}
	if ans.HarnessErr != "" {
		panic("harness failure: " + ans.HarnessErr)
	}
	return ans
}

// CallMulti sends a multi-run request to the shared worker.
func CallMulti(req *vrun.MultiRequest) *vrun.MultiAnswer {
	ans := &vrun.MultiAnswer{}
	wd := time.Duration(req.WatchdogMs) * time.Millisecond
	if wd <= 0 {
		wd = 30 * time.Second
	}
	if cerr := sharedWorker.Call("multi", req, ans, wd+15*time.Second); cerr != nil {
		if cerr.Harness != "" {
			panic("harness failure: " + cerr.Harness)
		}
		return &vrun.MultiAnswer{ProcessDeath: cerr.Death}
	}
	return ans
}

// CallC12 sends a provider-history request to the shared worker.
func CallC12(req *vrun.C12Request) *vrun.C12Answer {
	ans := &vrun.C12Answer{}
	if cerr := sharedWorker.Call("c12", req, ans, 60*time.Second); cerr != nil {
		if cerr.Harness != "" {
			panic("harness failure: " + cerr.Harness)
		}
		return &vrun.C12Answer{ProcessDeath: cerr.Death}
	}
	if ans.HarnessErr != "" {
		panic("harness failure: " + ans.HarnessErr)
	}
	return ans
}

// ExitCodeAnswer is the reply of the package-main worker.
type ExitCodeAnswer struct {
	ExitCode   int    `json:"exit_code"`
	Stdout     string `json:"stdout"`
	HarnessErr string `json:"harness_err,omitempty"`
	Panic      string `json:"panic,omitempty"`
}

var mainWorker = &Worker{}

// CallExitCode runs cmd/arcaflow's runWorkflow in the worker built from package main.
func CallExitCode(req *vrun.EngineRequest) *ExitCodeAnswer {
	if mainWorker.Bin == "" {
		mainWorker.Bin = envOr("VERIF_MAIN_BIN", "build/main.test")
	}
	ans := &ExitCodeAnswer{}
	if cerr := mainWorker.Call("exitcode", req, ans, 60*time.Second); cerr != nil {
		if cerr.Harness != "" {
			panic("harness failure: " + cerr.Harness)
		}
		return &ExitCodeAnswer{Panic: cerr.Death}
	}
	if ans.HarnessErr != "" {
		panic("harness failure: " + ans.HarnessErr)
	}
	return ans
}

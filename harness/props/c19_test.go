//go:build verif

package props

import (
	"fmt"
	"testing"

	"go.flow.arcalot.io/engine/internal/verif/vcase"
	"pgregory.net/rapid"
)

func TestC19(t *testing.T) {
	runProperty(t, "C19",
		func(rt *rapid.T) *vcase.Case {
			c, mut := vcase.GenInputCase(rt)
			if c.Extra == nil {
				c.Extra = map[string]any{}
			}
			c.Extra["via_yaml"] = rapid.Bool().Draw(rt, "via_yaml")
			if c.Extra["via_yaml"].(bool) && mut == nil {
				// plain scalars whose YAML type is not the field's type: the schema has to see their text
				for _, f := range c.Main.Input {
					if _, given := c.InputDoc[f.Name]; !given || f.Min != nil {
						continue
					}
					switch {
					case f.Type == "string" && rapid.IntRange(0, 2).Draw(rt, "odd."+f.Name) == 0:
						c.InputDoc[f.Name] = vcase.RawScalar(rapid.SampledFrom([]string{"1.10", "010", "0x10", "true", "~", "2001-12-14", "1e3", "null", "yes", "0o17", "-.5", "+12"}).Draw(rt, "odd."+f.Name+".text"))
						c.Labels = append(c.Labels, "plain-scalar-with-another-yaml-type")
					case f.Type == "int" && rapid.IntRange(0, 3).Draw(rt, "odd."+f.Name) == 0:
						c.InputDoc[f.Name] = vcase.RawScalar(rapid.SampledFrom([]string{"010", "007", "-08", "0"}).Draw(rt, "odd."+f.Name+".text"))
						c.Labels = append(c.Labels, "plain-scalar-with-another-yaml-type")
					}
				}
			}
			if mut != nil {
				c.Extra["mutation"] = map[string]any{"kind": mut.Kind, "field": mut.Field}
			}
			return c
		},
		func(st *Stats, c *vcase.Case) string {
			mut, invalid := c.Extra["mutation"].(map[string]any)
			viaYAML, _ := c.Extra["via_yaml"].(bool)
			req := c.Request("run")
			if raw, ok := c.Extra["raw_input"]; ok {
				// the whole document is not a map
				req.Input = raw
				viaYAML = false
			} else if viaYAML {
				doc := vcase.RenderInputYAML(c.InputDoc)
				req.InputYAML = &doc
				req.Input = nil
			}
			ans := RunCase(req)
			if ans.PrepareErr != "" {
				return "generated program rejected by Prepare (generator soundness): " + short(ans.PrepareErr, 400)
			}
			if owner, _ := anomaly(ans); owner != "" {
				st.ForeignAnomaly(owner, c)
				return ""
			}
			labels := []string{fmt.Sprintf("via_yaml:%v", viaYAML), fmt.Sprintf("prior-runs-on-the-prepared-workflow:%d", len(c.PriorDocs))}
			nontrivial := invalid
			for _, f := range c.Main.Input {
				if f.Default != nil || f.Type == "obj" {
					nontrivial = true
				}
			}
			if invalid {
				labels = append(labels, "invalid:"+fmt.Sprint(mut["kind"]))
				st.Record(c, nontrivial, labels)
				if ans.Returned.Err == "" {
					return fmt.Sprintf("the input document is invalid (%v of %v) but the run returned output %q", mut["kind"], mut["field"], ans.Returned.OutputID)
				}
				if ans.DeploysRun != 0 {
					return fmt.Sprintf("the input document is invalid (%v of %v) but %d plugins were deployed for execution", mut["kind"], mut["field"], ans.DeploysRun)
				}
				for _, e := range ans.Log {
					if e.Phase == "run" {
						return fmt.Sprintf("the input document is invalid (%v of %v) but the deployer/plugin saw activity: %s %s", mut["kind"], mut["field"], e.Kind, e.Key)
					}
				}
				return ""
			}
			labels = append(labels, "valid")
			st.Record(c, nontrivial, labels)
			m := vcase.NewModel(c.Main, c.Subs, vcase.NormalizeInput(c.Main, c.InputDoc), c.Script, nil)
			if ans.Returned.Err != "" {
				return "a valid input document was refused or the run failed: " + short(ans.Returned.Err, 400)
			}
			if msg, _ := checkDataflow(m, ans); msg != "" {
				return "normalised input not seen identically by the steps: " + msg
			}
			return checkResult(c, m, (*returned)(ans.Returned))
		})
}

//go:build verif

package props

import (
	"encoding/base64"
	"encoding/json"
	"fmt"
	"os"
	"sort"
	"strings"
	"testing"

	"go.flow.arcalot.io/engine/internal/verif/vcase"
	"go.flow.arcalot.io/engine/internal/verif/vrun"
	"pgregory.net/rapid"
)

func b64(s string) string { return base64.StdEncoding.EncodeToString([]byte(s)) }

type engineVariant struct {
	name string
	mod  func(*vrun.EngineRequest)
}

func TestC20(t *testing.T) {
	runProperty(t, "C20",
		func(rt *rapid.T) *vcase.Case {
			c := vcase.GenTreeCase(rt)
			c.Extra = map[string]any{"workflow_file": rapid.SampledFrom([]string{"workflow.yaml", "main.yml", "wf/entry.yaml"}).Draw(rt, "main.name")}
			return c
		},
		func(st *Stats, c *vcase.Case) string {
			mainName, _ := c.Extra["workflow_file"].(string)
			if strings.Contains(mainName, "/") {
				mainName = "workflow.yaml" // the context directory is the main file's directory
			}
			files := map[string]string{mainName: b64(vcase.RenderYAML(c.Main))}
			var subNames []string
			for name, p := range c.Subs {
				files[name] = b64(vcase.RenderYAML(p))
				subNames = append(subNames, name)
			}
			sort.Strings(subNames)
			base := func() *vrun.EngineRequest {
				return &vrun.EngineRequest{Files: files, WorkflowFile: mainName, InputB64: b64(vcase.RenderInputYAML(c.InputDoc)), Script: c.Script, Run: true, WatchdogMs: 20000}
			}
			variants := []engineVariant{
				{"parse+run, absolute context", func(r *vrun.EngineRequest) {}},
				{"RunWorkflow", func(r *vrun.EngineRequest) { r.UseRunWorkflow = true }},
				{"relative context, cwd elsewhere", func(r *vrun.EngineRequest) { r.RelativeContext, r.Chdir = true, "elsewhere" }},
				{"relative context, cwd = context", func(r *vrun.EngineRequest) { r.RelativeContext, r.Chdir = true, "scratch" }},
				{"relative context, working directory changed after the context was loaded", func(r *vrun.EngineRequest) {
					r.RelativeContext, r.Chdir, r.ChdirAfterLoad = true, "scratch", "elsewhere"
				}},
				{"engine object that parsed and ran another tree with the same file names before", func(r *vrun.EngineRequest) {
					// the other tree: every sub-workflow returns a constant instead of its steps' results
					r.PriorFiles = map[string]string{}
					for name, text := range files {
						raw, _ := base64.StdEncoding.DecodeString(text)
						if name != mainName {
							if i := strings.Index(string(raw), "\noutputs:"); i >= 0 {
								raw = []byte(string(raw)[:i] + "\noutputs:\n  \"success\":\n    \"r\": \"from the other tree\"\n")
							}
						}
						r.PriorFiles[name] = b64(string(raw))
					}
					r.PriorInputB64 = r.InputB64
				}},
				{"in-memory main file", func(r *vrun.EngineRequest) { r.InMemory = true }},
				{"in-memory main file + sub-workflows preloaded", func(r *vrun.EngineRequest) { r.InMemory, r.ExtraInMemory = true, subNames }},
			}
			// expected error flag
			m := vcase.NewModel(c.Main, c.Subs, vcase.NormalizeInput(c.Main, c.InputDoc), c.Script, nil)
			depth := 1
			for _, l := range c.Labels {
				if strings.HasPrefix(l, "depth:") {
					fmt.Sscanf(l, "depth:%d", &depth)
				}
			}
			hasError := false
			for _, o := range c.Main.Outputs {
				if o.ID == "error" {
					hasError = true
				}
			}
			st.Record(c, depth >= 2 || hasError || c.Main.OutputSchemaErr != nil, c.Labels)
			var ref *vrun.EngineAnswer
			var refJSON string
			for _, v := range variants {
				req := base()
				v.mod(req)
				ans := CallEngine(req)
				if ans.ProcessDeath != "" || ans.ParsePanic != "" || ans.RunPanic != "" {
					st.ForeignAnomaly("C11", c)
					return ""
				}
				if ans.Hang != nil {
					st.ForeignAnomaly("C01", c)
					return ""
				}
				if ans.ParseErr != "" {
					return fmt.Sprintf("[%s] the generated tree was not accepted: %s", v.name, short(ans.ParseErr, 400))
				}
				if ans.Returned == nil {
					return fmt.Sprintf("[%s] no result", v.name)
				}
				if strings.Contains(ans.Returned.Err, "bug:") {
					st.ForeignAnomaly("C08", c)
					return ""
				}
				if strings.Contains(ans.Returned.Err, fallbackText) && len(m.Producible()) > 0 {
					st.ForeignAnomaly("C09", c)
					return ""
				}
				// against the reference (direct meaning of the texts)
				if msg := checkResult(c, m, (*returned)(ans.Returned)); msg != "" {
					return fmt.Sprintf("[%s] %s", v.name, msg)
				}
				if ans.Returned.Err == "" {
					want := ans.Returned.OutputID == "error"
					if c.Main.OutputSchemaErr != nil {
						want = c.Main.OutputSchemaErr[ans.Returned.OutputID]
					}
					if ans.OutputIsError != want {
						return fmt.Sprintf("[%s] output %q flagged error=%v, expected %v (explicit schema: %v)", v.name, ans.Returned.OutputID, ans.OutputIsError, want, c.Main.OutputSchemaErr != nil)
					}
				} else if !ans.OutputIsError {
					return fmt.Sprintf("[%s] a failed run is not flagged as error", v.name)
				}
				j, _ := json.Marshal(map[string]any{"id": ans.Returned.OutputID, "data": ans.Returned.Data, "failed": ans.Returned.Err != "", "flag": ans.OutputIsError})
				if ref == nil {
					ref, refJSON = ans, string(j)
				} else if string(j) != refJSON {
					return fmt.Sprintf("[%s] result differs from [%s]: %s vs %s", v.name, variants[0].name, short(string(j), 300), short(refJSON, 300))
				}
			}
			// the command's exit code (cmd/arcaflow runWorkflow, in the worker built from package main)
			if os.Getenv("VERIF_NO_MAIN") == "" {
				ec := CallExitCode(base())
				if ec.Panic != "" {
					return "cmd/arcaflow runWorkflow crashed: " + short(ec.Panic, 500)
				}
				want := 0
				switch {
				case ref.Returned.Err != "":
					want = 3
				case ref.OutputIsError:
					want = 2
				}
				if ec.ExitCode != want {
					return fmt.Sprintf("cmd/arcaflow exits with code %d, expected %d (run failed: %v, error output: %v)", ec.ExitCode, want, ref.Returned.Err != "", ref.OutputIsError)
				}
				if want != 3 && !strings.Contains(ec.Stdout, "output_id: "+ref.Returned.OutputID) {
					return fmt.Sprintf("cmd/arcaflow printed %q, expected output_id %s", short(ec.Stdout, 200), ref.Returned.OutputID)
				}
				st.Label("exit-code:" + fmt.Sprint(want))
			}
			// direct Executor.Prepare + Execute of the same texts
			direct := RunCase(c.Request("run"))
			if direct.PrepareErr != "" {
				return "direct Prepare of the same texts failed: " + short(direct.PrepareErr, 300)
			}
			if owner, _ := anomaly(direct); owner != "" {
				st.ForeignAnomaly(owner, c)
				return ""
			}
			j, _ := json.Marshal(map[string]any{"id": direct.Returned.OutputID, "data": direct.Returned.Data, "failed": direct.Returned.Err != "", "flag": ref.OutputIsError})
			if string(j) != refJSON {
				return fmt.Sprintf("direct Prepare+Execute differs from the engine entry point: %s vs %s", short(string(j), 300), short(refJSON, 300))
			}
			return ""
		})
}

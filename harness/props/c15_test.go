//go:build verif

package props

import (
	"fmt"
	"strings"
	"testing"

	"go.flow.arcalot.io/engine/internal/verif/vcase"
	"go.flow.arcalot.io/engine/internal/verif/vplug"
	"go.flow.arcalot.io/engine/internal/verif/vrun"
	"pgregory.net/rapid"
)

func tagProfile() vcase.Profile {
	p := detProfile()
	p.Name = "tag-heavy"
	p.TagHeavy = true
	p.SoftOpt = true
	p.Foreach = false
	p.MinSteps, p.MaxSteps = 2, 6
	p.Outcomes = []string{"success", "success", "error", "alt", "crash", "bad_output"}
	p.MaxDelayMs = 20
	return p
}

// addSoftMotif appends the soft-optional motif: producer P can finish only after consumer C has
// started; C's only step dependency is a soft-optional field on P.
func addSoftMotif(c *vcase.Case) {
	p := &vcase.Step{ID: "softp", Kind: "plugin", Op: "op", Input: vcase.MapVal([]string{"key", "a"}, []*vcase.Val{vcase.LitVal(vcase.StrLit("softp")), vcase.LitVal(vcase.IntLit(4))})}
	cons := &vcase.Step{ID: "softc", Kind: "plugin", Op: "op", Input: vcase.MapVal([]string{"key", "any"}, []*vcase.Val{vcase.LitVal(vcase.StrLit("softc")),
		vcase.MapVal([]string{"s", "k"}, []*vcase.Val{{K: "softopt", Expr: &vcase.Expr{K: "out", Step: "softp", Stage: "outputs", Output: "success"}}, vcase.LitVal(vcase.StrLit("const"))})})}
	c.Main.Steps = append(c.Main.Steps, p, cons)
	c.Script.Steps["softp"] = vplug.Behaviour{Outcome: "success", Gate: "exec-start:softc", GateTimeoutMs: 1500}
	c.Script.Steps["softc"] = vplug.Behaviour{Outcome: "success", DelayMs: 5}
	// every output additionally waits for both, so that the run does not end before they are done
	for _, o := range c.Main.Outputs {
		if o.Val.K == "map" {
			o.Val.Set("zz_softc", &vcase.Val{K: "waitopt", Expr: &vcase.Expr{K: "out", Step: "softc", Stage: "outputs", Output: "success", Path: []string{"v"}}})
			o.Val.Set("zz_softp", &vcase.Val{K: "waitopt", Expr: &vcase.Expr{K: "out", Step: "softp", Stage: "outputs", Output: "success", Path: []string{"v"}}})
		}
	}
	c.Labels = append(c.Labels, "motif:soft-optional-source-gated-on-consumer")
}

// waitOptOrder checks that a consumer with a wait-optional field started only after the source step
// had finished (if the source executed at all).
func waitOptOrder(c *vcase.Case, ans *vrun.Answer) string {
	endSeq, startSeq := map[string]int64{}, map[string]int64{}
	for _, e := range ans.Log {
		if e.Phase != "run" {
			continue
		}
		switch e.Kind {
		case "exec-start":
			startSeq[e.Key] = e.Seq
		case "exec-end":
			endSeq[e.Key] = e.Seq
		}
	}
	for _, s := range c.Main.Steps {
		if s.Kind != "plugin" && s.Kind != "" {
			continue
		}
		cs, ran := startSeq[s.ID]
		if !ran {
			continue
		}
		msg := ""
		for _, v := range []*vcase.Val{s.Input, s.WaitFor} {
			v.Walk(func(x *vcase.Val) {
				if x.K != "waitopt" || x.Expr == nil || x.Expr.K != "out" {
					return
				}
				// only the outputs / crashed stages are decided by the end of the source's execution;
				// e.g. disabled.output is decided as soon as the source step is enabled
				if x.Expr.Stage != "outputs" && x.Expr.Stage != "crashed" {
					return
				}
				src := x.Expr.Step
				if ss, srcRan := startSeq[src]; srcRan {
					if es, ended := endSeq[src]; !ended || es > cs {
						msg = fmt.Sprintf("step %q has a wait-optional field on %s but started (seq %d) before step %q (started seq %d) had finished", s.ID, x.Expr.Text(), cs, src, ss)
					}
				}
			})
		}
		if msg != "" {
			return msg
		}
	}
	return ""
}

// cancelMotif builds a run whose only output consists of wait-optional fields and whose caller
// cancels while a source is busy: every source then finishes one way or the other (produced,
// cancelled, closed without a result, never started), so every field must be evaluated and the
// output delivered - an "execution aborted" error after the grace period means a field was never
// evaluated although its source was over.
func cancelMotif(rt *rapid.T) *vcase.Case {
	mk := func(id, op string) *vcase.Step {
		return &vcase.Step{ID: id, Kind: "plugin", Op: op, Input: vcase.MapVal([]string{"key"}, []*vcase.Val{vcase.LitVal(vcase.StrLit(id))})}
	}
	wo := func(step string) *vcase.Val {
		return &vcase.Val{K: "waitopt", Expr: &vcase.Expr{K: "out", Step: step, Stage: "outputs", Output: "success"}}
	}
	slowOp := rapid.SampledFrom([]string{"op", "op", "op_nc"}).Draw(rt, "cm.slowop")
	fast, slow, blocked := mk("cfast", "op"), mk("cslow", slowOp), mk("cblocked", "op")
	blocked.WaitFor = vcase.ExprVal(&vcase.Expr{K: "out", Step: "cslow", Stage: "outputs", Output: "success"})
	onCancel := rapid.SampledFrom([]string{"alt", "alt", "ignore"}).Draw(rt, "cm.oncancel")
	if onCancel == "ignore" || rapid.Bool().Draw(rt, "cm.closure0") {
		// a step that ignores the cancel signal is over only once it is force-closed
		slow.ClosureTimeoutMs = vcase.LitVal(vcase.IntLit(int64(rapid.SampledFrom([]int{0, 0, 50}).Draw(rt, "cm.closure"))))
	}
	c := &vcase.Case{Prop: "C15", Profile: "motif:wait-optional-under-cancellation", Subs: map[string]*vcase.Program{}, InputDoc: map[string]any{},
		Main: &vcase.Program{Steps: []*vcase.Step{fast, slow, blocked},
			Outputs: []*vcase.Output{{ID: "success", Val: vcase.MapVal([]string{"fast", "slow", "blocked"}, []*vcase.Val{wo("cfast"), wo("cslow"), wo("cblocked")})}}}}
	c.Script.Steps = map[string]vplug.Behaviour{
		"cfast":    {Outcome: "success"},
		"cslow":    {Outcome: "never", OnCancel: onCancel, CancelDelayMs: rapid.IntRange(0, 20).Draw(rt, "cm.canceldelay")},
		"cblocked": {Outcome: "success"},
	}
	c.Script.Deploys = map[string]vplug.DeployBehaviour{}
	switch rapid.SampledFrom([]string{"running", "running", "deploying"}).Draw(rt, "cm.when") {
	case "running":
		c.Triggers = []vrun.Trigger{{Action: "cancel", On: "exec-start:cslow", AfterMs: rapid.IntRange(0, 30).Draw(rt, "cm.after")}}
	case "deploying":
		c.Script.Deploys["vp://cslow"] = vplug.DeployBehaviour{DelayMs: 300}
		c.Triggers = []vrun.Trigger{{Action: "cancel", On: "exec-end:cfast", AfterMs: rapid.IntRange(5, 60).Draw(rt, "cm.after")}}
	}
	c.Triggers = append(c.Triggers, vrun.Trigger{Action: "cancel", AfterMs: 400})
	c.Labels = []string{"motif:wait-optional-under-cancellation", "cancel-motif:slow-" + slowOp}
	return c
}

func TestC15(t *testing.T) {
	p := tagProfile()
	runProperty(t, "C15",
		func(rt *rapid.T) *vcase.Case {
			if rapid.IntRange(0, 11).Draw(rt, "cancelmotif?") == 0 {
				return cancelMotif(rt)
			}
			c := vcase.GenCase(rt, p, "C15")
			if rapid.IntRange(0, 2).Draw(rt, "softmotif?") == 0 {
				addSoftMotif(c)
			}
			return c
		},
		func(st *Stats, c *vcase.Case) string {
			m := vcase.NewModel(c.Main, c.Subs, vcase.NormalizeInput(c.Main, c.InputDoc), c.Script, nil)
			ans := RunCase(c.Request("run"))
			if ans.PrepareErr != "" {
				return "generated program rejected by Prepare (generator soundness): " + short(ans.PrepareErr, 400)
			}
			if owner, _ := anomaly(ans); owner != "" {
				st.ForeignAnomaly(owner, c)
				return ""
			}
			if c.Profile == "motif:wait-optional-under-cancellation" {
				st.Record(c, true, c.Labels)
				if strings.Contains(ans.Returned.Err, "workflow execution aborted") {
					// sound only if the busy source really was over long before the grace period ended
					over := false
					for _, e := range ans.Log {
						if e.Phase == "run" && e.Kind == "conn-close" && e.Key == "vp://cslow" && e.TUs+2_000_000 < ans.TReturnUs {
							over = true
						}
					}
					if !over {
						st.Label("cancel-motif:source-not-over-in-time(inconclusive)")
						return ""
					}
					return "wait-optional fields were not evaluated although every source was over (run cancelled, all steps closed): " + short(ans.Returned.Err, 300)
				}
				if ans.Returned.Err != "" {
					return "" // an error reported by a step won the race against the output: permitted
				}
				data, _ := ans.Returned.Data.(map[string]any)
				if _, has := data["blocked"]; has {
					return "wait-optional field present although its source never ran"
				}
				if _, has := data["slow"]; has {
					return "wait-optional field present although its source did not produce the referenced output"
				}
				if _, has := data["fast"]; !has {
					for _, e := range ans.Log {
						// (an output that reached the engine well before the cancellation; one that is still
						// on its way when the run is cancelled may legitimately be lost)
						if e.Phase == "run" && e.Kind == "exec-end" && e.Key == "cfast" && ans.TCancelUs > 0 && e.TUs+20_000 < ans.TCancelUs {
							return "wait-optional field absent although its source produced the referenced output"
						}
					}
				}
				return ""
			}
			if ans.Returned.Err != "" && strings.Contains(ans.Returned.Err, fallbackText) && len(m.Producible()) > 0 {
				if again := fallbackRepeats(c); again != "" {
					st.Record(c, true, append(c.Labels, "fallback-error-confirmed-by-rerun"))
					return fmt.Sprintf("the run repeatedly ends with the fallback verdict %q although the reference says outputs %v are producible", short(again, 120), m.Producible())
				}
				st.ForeignAnomaly("C09", c)
				return ""
			}
			// non-trivial: a tag whose source did not succeed, or several tags in one object
			nt := false
			for _, l := range c.Labels {
				if l == "tagtree:several-tags-in-one-object" || strings.HasPrefix(l, "outcome:") || strings.HasPrefix(l, "deploy:") || strings.HasPrefix(l, "motif:") {
					nt = true
				}
			}
			st.Record(c, nt, c.Labels)
			cut, ok := beforeShutdown(ans)
			if !ok {
				panic("harness failure: no shutdown-begin observation (binary built without schedule points?)")
			}
			if msg, _ := checkDataflow(m, cut); msg != "" {
				return "consumer input: " + msg
			}
			if msg := waitOptOrder(c, cut); msg != "" {
				return msg
			}
			// the soft-optional motif: the consumer must not have waited for the producer
			for _, l := range c.Labels {
				if strings.HasPrefix(l, "motif:soft") {
					var cs, pe int64 = -1, -1
					timedOut := false
					for _, e := range cut.Log { // only what happened before the run began to shut down
						switch {
						case (e.Kind == "signal" || e.Kind == "ctx-done") && e.Key == "softp":
							pe = -2 // interrupted: its end says nothing
						case e.Kind == "exec-end" && e.Key == "softp" && pe == -2:
						case e.Kind == "exec-start" && e.Key == "softc":
							cs = e.Seq
						case e.Kind == "exec-end" && e.Key == "softp":
							pe = e.Seq
						case e.Kind == "gate-timeout" && e.Key == "softp":
							timedOut = true
						}
					}
					if timedOut || (cs >= 0 && pe >= 0 && cs > pe) {
						return "a soft-optional field delayed its consumer: the consumer started only after the source had finished (the source could finish only after the consumer had started)"
					}
				}
			}
			return checkResult(c, m, (*returned)(ans.Returned))
		})
}

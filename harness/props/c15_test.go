//go:build verif

package props

import (
	"fmt"
	"strings"
	"testing"

	"go.flow.arcalot.io/engine/internal/verif/vcase"
	"go.flow.arcalot.io/engine/internal/verif/vplug"
	"go.flow.arcalot.io/engine/internal/verif/vrun"
	"pgregory.net/rapid"
)

func tagProfile() vcase.Profile {
	p := detProfile()
	p.Name = "tag-heavy"
	p.TagHeavy = true
	p.SoftOpt = true
	p.Foreach = false
	p.MinSteps, p.MaxSteps = 2, 6
	p.Outcomes = []string{"success", "success", "error", "alt", "crash", "bad_output"}
	p.MaxDelayMs = 20
	return p
}

// addSoftMotif appends the soft-optional motif: producer P can finish only after consumer C has
// started; C's only step dependency is a soft-optional field on P.
func addSoftMotif(c *vcase.Case) {
	p := &vcase.Step{ID: "softp", Kind: "plugin", Op: "op", Input: vcase.MapVal([]string{"key", "a"}, []*vcase.Val{vcase.LitVal(vcase.StrLit("softp")), vcase.LitVal(vcase.IntLit(4))})}
	cons := &vcase.Step{ID: "softc", Kind: "plugin", Op: "op", Input: vcase.MapVal([]string{"key", "any"}, []*vcase.Val{vcase.LitVal(vcase.StrLit("softc")),
		vcase.MapVal([]string{"s", "k"}, []*vcase.Val{{K: "softopt", Expr: &vcase.Expr{K: "out", Step: "softp", Stage: "outputs", Output: "success"}}, vcase.LitVal(vcase.StrLit("const"))})})}
	c.Main.Steps = append(c.Main.Steps, p, cons)
	c.Script.Steps["softp"] = vplug.Behaviour{Outcome: "success", Gate: "exec-start:softc", GateTimeoutMs: 1500}
	c.Script.Steps["softc"] = vplug.Behaviour{Outcome: "success", DelayMs: 5}
	// every output additionally waits for both, so that the run does not end before they are done
	for _, o := range c.Main.Outputs {
		if o.Val.K == "map" {
			o.Val.Set("zz_softc", &vcase.Val{K: "waitopt", Expr: &vcase.Expr{K: "out", Step: "softc", Stage: "outputs", Output: "success", Path: []string{"v"}}})
			o.Val.Set("zz_softp", &vcase.Val{K: "waitopt", Expr: &vcase.Expr{K: "out", Step: "softp", Stage: "outputs", Output: "success", Path: []string{"v"}}})
		}
	}
	c.Labels = append(c.Labels, "motif:soft-optional-source-gated-on-consumer")
}

// waitOptOrder checks that a consumer with a wait-optional field started only after the source step
// had finished (if the source executed at all).
func waitOptOrder(c *vcase.Case, ans *vrun.Answer) string {
	endSeq, startSeq := map[string]int64{}, map[string]int64{}
	for _, e := range ans.Log {
		if e.Phase != "run" {
			continue
		}
		switch e.Kind {
		case "exec-start":
			startSeq[e.Key] = e.Seq
		case "exec-end":
			endSeq[e.Key] = e.Seq
		}
	}
	for _, s := range c.Main.Steps {
		if s.Kind != "plugin" && s.Kind != "" {
			continue
		}
		cs, ran := startSeq[s.ID]
		if !ran {
			continue
		}
		msg := ""
		for _, v := range []*vcase.Val{s.Input, s.WaitFor} {
			v.Walk(func(x *vcase.Val) {
				if x.K != "waitopt" || x.Expr == nil || x.Expr.K != "out" {
					return
				}
				// only the outputs / crashed stages are decided by the end of the source's execution;
				// e.g. disabled.output is decided as soon as the source step is enabled
				if x.Expr.Stage != "outputs" && x.Expr.Stage != "crashed" {
					return
				}
				src := x.Expr.Step
				if ss, srcRan := startSeq[src]; srcRan {
					if es, ended := endSeq[src]; !ended || es > cs {
						msg = fmt.Sprintf("step %q has a wait-optional field on %s but started (seq %d) before step %q (started seq %d) had finished", s.ID, x.Expr.Text(), cs, src, ss)
					}
				}
			})
		}
		if msg != "" {
			return msg
		}
	}
	return ""
}

func TestC15(t *testing.T) {
	p := tagProfile()
	runProperty(t, "C15",
		func(rt *rapid.T) *vcase.Case {
			c := vcase.GenCase(rt, p, "C15")
			if rapid.IntRange(0, 2).Draw(rt, "softmotif?") == 0 {
				addSoftMotif(c)
			}
			return c
		},
		func(st *Stats, c *vcase.Case) string {
			m := vcase.NewModel(c.Main, c.Subs, vcase.NormalizeInput(c.Main, c.InputDoc), c.Script, nil)
			ans := RunCase(c.Request("run"))
			if ans.PrepareErr != "" {
				return "generated program rejected by Prepare (generator soundness): " + short(ans.PrepareErr, 400)
			}
			if owner, _ := anomaly(ans); owner != "" {
				st.ForeignAnomaly(owner, c)
				return ""
			}
			if ans.Returned.Err != "" && strings.Contains(ans.Returned.Err, fallbackText) && len(m.Producible()) > 0 {
				st.ForeignAnomaly("C09", c)
				return ""
			}
			// non-trivial: a tag whose source did not succeed, or several tags in one object
			nt := false
			for _, l := range c.Labels {
				if l == "tagtree:several-tags-in-one-object" || strings.HasPrefix(l, "outcome:") || strings.HasPrefix(l, "deploy:") || strings.HasPrefix(l, "motif:") {
					nt = true
				}
			}
			st.Record(c, nt, c.Labels)
			cut, ok := beforeShutdown(ans)
			if !ok {
				panic("harness failure: no shutdown-begin observation (binary built without schedule points?)")
			}
			if msg, _ := checkDataflow(m, cut); msg != "" {
				return "consumer input: " + msg
			}
			if msg := waitOptOrder(c, cut); msg != "" {
				return msg
			}
			// the soft-optional motif: the consumer must not have waited for the producer
			for _, l := range c.Labels {
				if strings.HasPrefix(l, "motif:soft") {
					var cs, pe int64 = -1, -1
					timedOut := false
					for _, e := range cut.Log { // only what happened before the run began to shut down
						switch {
						case (e.Kind == "signal" || e.Kind == "ctx-done") && e.Key == "softp":
							pe = -2 // interrupted: its end says nothing
						case e.Kind == "exec-end" && e.Key == "softp" && pe == -2:
						case e.Kind == "exec-start" && e.Key == "softc":
							cs = e.Seq
						case e.Kind == "exec-end" && e.Key == "softp":
							pe = e.Seq
						case e.Kind == "gate-timeout" && e.Key == "softp":
							timedOut = true
						}
					}
					if timedOut || (cs >= 0 && pe >= 0 && cs > pe) {
						return "a soft-optional field delayed its consumer: the consumer started only after the source had finished (the source could finish only after the consumer had started)"
					}
				}
			}
			return checkResult(c, m, (*returned)(ans.Returned))
		})
}

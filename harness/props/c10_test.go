//go:build verif

package props

import (
	"fmt"
	"testing"

	"go.flow.arcalot.io/engine/internal/verif/vcase"
	"pgregory.net/rapid"
)

func prepProfile() vcase.Profile {
	p := detProfile()
	p.Name = "prepare-only"
	p.SoftOpt = true
	p.StopIf = true
	p.MaxSteps = 6
	p.MaxDelayMs = 0
	p.Outcomes = []string{"success"}
	p.DeployFail, p.DeployOdd = false, false
	return p
}

func corruptionPicks(c *vcase.Case) []int {
	var picks []int
	if raw, ok := c.Extra["corruption_picks"]; ok {
		switch l := raw.(type) {
		case []int:
			picks = l
		case []any:
			for _, x := range l {
				if f, ok := x.(float64); ok {
					picks = append(picks, int(f))
				}
			}
		}
	}
	return picks
}

func TestC10(t *testing.T) {
	p := prepProfile()
	nCorr := 5
	if tier() == "thorough" {
		nCorr = 12
	}
	runProperty(t, "C10",
		func(rt *rapid.T) *vcase.Case {
			pp := p
			if rapid.Bool().Draw(rt, "tag-heavy?") {
				pp.TagHeavy = true // trees of tags, tags inside one-of options
			}
			c := vcase.GenCase(rt, pp, "C10")
			if c.Extra == nil {
				c.Extra = map[string]any{}
			}
			picks := make([]int, nCorr)
			for i := range picks {
				picks[i] = rapid.IntRange(0, 1<<20).Draw(rt, fmt.Sprintf("corruption.%d", i))
			}
			c.Extra["corruption_picks"] = picks
			return c
		},
		func(st *Stats, c *vcase.Case) string {
			req := c.Request("prepare")
			req.WantDAG = true
			ans := RunCase(req)
			if owner, _ := anomaly(ans); owner != "" && owner != "C11" {
				st.ForeignAnomaly(owner, c)
				return ""
			}
			if ans.PreparePanic != "" {
				return "Prepare panicked on a generated program: " + short(ans.PreparePanic, 600)
			}
			if ans.PrepareErr != "" {
				return "generated program rejected by Prepare (generator soundness): " + short(ans.PrepareErr, 400)
			}
			exp := vcase.ExpectedGraph(c.Main)
			tags := 0
			for _, l := range c.Labels {
				if len(l) > 4 && l[:4] == "tag:" {
					tags++
				}
			}
			shape := fmt.Sprintf("shape:shared-multi-ref-owner:%d", min(exp.SharedMultiRef, 3))
			st.Record(c, tags > 0 || len(exp.Edges) > 60, append(c.Labels, "accepted-program", shape))
			if d := vcase.DiffGraphs(exp.Nodes, exp.Edges, ans.DAG.Nodes, ans.DAG.Edges); d != "" {
				return "dependency graph differs from what the text implies: " + d
			}
			progs, descs := vcase.Corruptions(c.Main)
			if len(progs) == 0 {
				return ""
			}
			for _, pick := range corruptionPicks(c) {
				i := pick % len(progs)
				cc := *c
				cc.Main = progs[i]
				cans := RunCase(cc.Request("prepare"))
				case2 := map[string]any{"base": c, "corruption": descs[i]}
				st.Record(case2, true, []string{"corruption:" + descs[i].Kind})
				if cans.ProcessDeath != "" || cans.PreparePanic != "" {
					return fmt.Sprintf("Prepare crashed on a corrupted program (%s): %s%s", descs[i].Desc, short(cans.PreparePanic, 400), short(cans.ProcessDeath, 400))
				}
				if cans.PrepareErr == "" {
					return fmt.Sprintf("a corrupted workflow was accepted: %s (%s)", descs[i].Desc, descs[i].Kind)
				}
				if cans.DeploysProbe != cans.ClosesProbe {
					st.ForeignAnomaly("C05", cc)
				}
			}
			return ""
		})
}

//go:build verif

package props

import (
	"fmt"
	"os"
	"path/filepath"
	"regexp"
	"sort"
	"strings"
	"testing"

	"go.flow.arcalot.io/engine/internal/verif/vcase"
	"go.flow.arcalot.io/engine/internal/verif/vrun"
	"go.flow.arcalot.io/engine/internal/verif/vsched"
	"pgregory.net/rapid"
)

// RaceCase wraps one case of another property's generator.
type RaceCase struct {
	Kind  string           `json:"kind"` // exit-path | loop | multi | provider
	Run   *vcase.Case      `json:"run,omitempty"`
	Multi *MultiCase       `json:"multi,omitempty"`
	C12   *vrun.C12Request `json:"c12,omitempty"`
	Preps int              `json:"preps,omitempty"`
}

// repoRoot is where the engine sources were compiled from (tools/vbuild.py honours VERIF_REPO too).
func repoRoot() string {
	if r := os.Getenv("VERIF_REPO"); r != "" {
		return strings.TrimSuffix(r, "/")
	}
	return "/repo"
}

var raceLogPrefix string
var raceOffsets = map[string]int64{}

// newRaceReports returns the race reports written since the last call.
func newRaceReports() []string {
	var out []string
	files, _ := filepath.Glob(raceLogPrefix + ".*")
	for _, f := range files {
		data, err := os.ReadFile(f)
		if err != nil {
			continue
		}
		off := raceOffsets[f]
		if int64(len(data)) <= off {
			continue
		}
		chunk := string(data[off:])
		raceOffsets[f] = int64(len(data))
		for _, block := range strings.Split(chunk, "==================") {
			if strings.Contains(block, "WARNING: DATA RACE") {
				out = append(out, block)
			}
		}
	}
	return out
}

var accessHeader = regexp.MustCompile(`(?m)^(?:Read|Write|Previous read|Previous write|Atomic read|Atomic write|Previous atomic read|Previous atomic write) at .*$`)
var frameFile = regexp.MustCompile(`\n\s+(/[^\s:]+\.go):(\d+)`)

// engineRace decides whether a race report is about engine memory. For each of the two racing
// accesses the owner is the first frame outside the Go standard library: the access counts as the
// engine's if that frame is in a source file of the repository (not the overlaid harness). A report
// is ignored when one of the accesses runs on a goroutine of the plugin side (the SDK's ATP server
// or the scripted plugin): in reality that code lives in another process, only this harness puts
// it into the worker.
func engineRace(block string) (bool, string) {
	secs := accessHeader.FindAllStringIndex(block, -1)
	cut := strings.Index(block, "\nGoroutine ")
	if cut < 0 {
		cut = len(block)
	}
	where := ""
	for i, idx := range secs {
		end := cut
		if i+1 < len(secs) {
			end = secs[i+1][0]
		}
		if idx[1] > end {
			continue
		}
		sec := block[idx[1]:end]
		if strings.Contains(sec, "atp.(*atpServerSession)") || strings.Contains(sec, "/internal/verif/vplug/") || strings.Contains(sec, "atp.RunATPServer") {
			return false, ""
		}
		for _, m := range frameFile.FindAllStringSubmatch(sec, -1) {
			if strings.HasPrefix(m[1], "/usr/lib/go") || strings.Contains(m[1], "/go/src/") {
				continue
			}
			if strings.HasPrefix(m[1], repoRoot()+"/") && !strings.Contains(m[1], "/internal/verif/") && where == "" {
				where = m[1] + ":" + m[2]
			}
			break
		}
	}
	return where != "", where
}

var motifSitesCache = map[int][]string{}

// motifSites returns the schedule points a motif passes (one undisturbed run that counts every site).
func motifSites(mi int, mc *vcase.Case) []string {
	if l, ok := motifSitesCache[mi]; ok {
		return l
	}
	var l []string
	for site, n := range RunCase(clonePlanCase(mc, vsched.Plan{"*": {}}).Request("run")).SiteHits {
		if n > 0 {
			l = append(l, site)
		}
	}
	sort.Strings(l)
	if len(l) == 0 {
		panic("harness failure: motif " + mc.Profile + " passes no schedule point (binary built without schedule points?)")
	}
	motifSitesCache[mi] = l
	return l
}

func genRaceCase(rt *rapid.T) *RaceCase {
	kind := rapid.SampledFrom([]string{"exit-path", "exit-path", "loop", "multi", "multi", "provider", "delayed-motif", "delayed-motif"}).Draw(rt, "kind")
	rc := &RaceCase{Kind: kind}
	switch kind {
	case "delayed-motif":
		// one pair of C09's sweep: a canonical workflow with one schedule point it passes held for 60 ms
		motifs := vcase.Motifs()
		mi := rapid.IntRange(0, len(motifs)-1).Draw(rt, "motif")
		hit := motifSites(mi, motifs[mi])
		site := hit[rapid.IntRange(0, len(hit)-1).Draw(rt, "site")]
		sp := vsched.SitePlan{DelayMs: 60, First: 3}
		if rapid.Bool().Draw(rt, "every-pass") {
			sp = vsched.SitePlan{DelayMs: 40}
		}
		rc.Run = clonePlanCase(motifs[mi], vsched.Plan{site: sp})
	case "exit-path":
		rc.Run = genExitPathCase(rt, "C17")
	case "loop":
		rc.Run = vcase.GenLoopCase(rt)
	case "multi":
		rc.Multi = genMultiCase(rt)
		rc.Preps = rapid.IntRange(0, 4).Draw(rt, "concurrent-prepares")
	case "provider":
		rc.C12 = genC12(rt)
	}
	return rc
}

func checkRaceCase(st *Stats, rc *RaceCase) string {
	overlapping := false
	switch rc.Kind {
	case "exit-path", "loop", "delayed-motif":
		if rc.Kind == "exit-path" {
			tameNever2(rc.Run)
		}
		ans := RunCase(rc.Run.Request("run"))
		overlapping = len(rc.Run.Main.Steps) >= 2 || rc.Kind == "loop"
		if rc.Kind == "delayed-motif" {
			overlapping = false
			for site := range rc.Run.Plan {
				overlapping = overlapping || ans.SiteHits[site] > 0
			}
		}
		if ans.ProcessDeath != "" && strings.Contains(ans.ProcessDeath, "DATA RACE") {
			return "race detector aborted the worker: " + short(ans.ProcessDeath, 1500)
		}
	case "multi":
		c := rc.Multi.Base
		req := &vrun.MultiRequest{Main: vcase.RenderYAML(c.Main), Files: map[string]string{}, Script: c.Script, Rounds: rc.Multi.Rounds,
			RePrepareBetween: rc.Multi.RePrepare, SharedParsed: rc.Multi.SharedParsed, ConcurrentPrepares: rc.Preps, WatchdogMs: 60000}
		for name, p := range c.Subs {
			req.Files[name] = vcase.RenderYAML(p)
		}
		_ = CallMulti(req)
		for _, r := range rc.Multi.Rounds {
			if len(r) > 1 {
				overlapping = true
			}
		}
		if rc.Preps > 1 {
			overlapping = true
		}
	case "provider":
		_ = CallC12(rc.C12)
		for _, r := range rc.C12.Rounds {
			if len(r) > 1 {
				overlapping = true
			}
		}
	}
	st.Record(rc, overlapping, []string{"kind:" + rc.Kind})
	for _, block := range newRaceReports() {
		if ok, where := engineRace(block); ok {
			return fmt.Sprintf("data race on engine memory at %s:\n%s", where, short(block, 3500))
		}
		st.Label("race-report-outside-engine-ignored")
		if d := os.Getenv("VERIF_RACE_DEBUG"); d != "" {
			f, _ := os.OpenFile(d, os.O_APPEND|os.O_CREATE|os.O_WRONLY, 0o644)
			fmt.Fprintln(f, "=====", block)
			f.Close()
		}
	}
	return ""
}

func TestC17(t *testing.T) {
	dir := filepath.Join("build", "run", "C17-race")
	_ = os.MkdirAll(dir, 0o755)
	raceLogPrefix, _ = filepath.Abs(filepath.Join(dir, fmt.Sprintf("race-%d-%s", os.Getpid(), os.Getenv("VERIF_SHARD"))))
	os.Setenv("GORACE", "halt_on_error=0 log_path="+raceLogPrefix)
	defer func() {
		files, _ := filepath.Glob(raceLogPrefix + ".*")
		for _, f := range files {
			_ = os.Remove(f)
		}
	}()
	if !raceEnabled {
		t.Fatalf("harness failure: C17 needs a binary built with -race")
	}
	check := checkRaceCase
	if os.Getenv("VERIF_REPLAY") != "" {
		// a race needs the right interleaving: a replay repeats the case
		check = func(st *Stats, rc *RaceCase) string {
			for i := 0; i < envInt("VERIF_REPLAY_REPEAT", 60); i++ {
				if msg := checkRaceCase(st, rc); msg != "" {
					return msg
				}
			}
			return ""
		}
	}
	if os.Getenv("VERIF_REPLAY") != "" {
		runProperty(t, "C17", genRaceCase, check)
		return
	}
	st := newStats("C17")
	defer st.flush()
	// systematic part: the two smallest workflows with concurrent engine activity (two steps that
	// finish 5 ms apart; a loop over three items), every schedule point they pass held for 40 ms on
	// every pass - the variant of C09's sweep that keeps goroutines queueing on the locks
	shard, shards := envInt("VERIF_SHARD", 0), envInt("VERIF_SHARDS", 1)
	pairs := 0
	for mi, mc := range vcase.Motifs() {
		if mc.Profile != "motif:join" && mc.Profile != "motif:foreach-3" {
			continue
		}
		for si, site := range motifSites(mi, mc) {
			if (si+mi)%shards != shard {
				continue
			}
			pairs++
			rc := &RaceCase{Kind: "delayed-motif", Run: clonePlanCase(mc, vsched.Plan{site: {DelayMs: 40}})}
			// an overlap of a few microseconds still has to happen inside the widened window: the
			// two-step workflow is cheap, it gets several attempts per schedule point
			attempts := 1
			if mc.Profile == "motif:join" {
				attempts = 2
				if strings.HasPrefix(site, "workflow/") {
					attempts = 8 // the run loop is where the two steps meet
				}
			}
			for attempt := 0; attempt < attempts; attempt++ {
				if msg := checkRaceCase(st, rc); msg != "" {
					st.Fail(rc, msg)
					t.Fatalf("C17 (%s, site %s held 40 ms on every pass): %s", mc.Profile, site, msg)
				}
			}
		}
	}
	st.mu.Lock()
	st.Extra["systematic_motif_site_pairs"] = pairs
	st.mu.Unlock()
	rapid.Check(t, func(rt *rapid.T) {
		rc := genRaceCase(rt)
		if msg := checkRaceCase(st, rc); msg != "" {
			st.Fail(rc, msg)
			rt.Fatalf("C17: %s", msg)
		}
	})
}

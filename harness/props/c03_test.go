//go:build verif

package props

import (
	"fmt"
	"strings"
	"testing"

	"go.flow.arcalot.io/engine/internal/verif/vcase"
	"pgregory.net/rapid"
)

// detProfile is the deterministic profile shared by C02/C03/C04/C08.
func detProfile() vcase.Profile {
	return vcase.Profile{
		Name: "deterministic", MinSteps: 1, MaxSteps: 7,
		Outcomes:   []string{"success", "success", "success", "error", "alt", "crash", "bad_output"},
		DeployFail: true, DeployOdd: true, Foreach: true, Tags: true, Enabled: true, WaitFor: true, DeployTag: true,
		Funcs: true, EngineOuts: true, MaxOutputs: 4, MaxDelayMs: 12,
		// classes that were excluded while findings K2s / K3 were open (fixed now)
		IntArithOnOutputs: true, StructFieldRefs: true, LiteralEnabled: true, ClosedRefs: true, RichInput: true,
	}
}

// checkResult is the C03 oracle; it returns "" when the result is the prescribed one.
func checkResult(c *vcase.Case, m *vcase.Model, ret *returned) string {
	producible := m.Producible()
	if ret.Err != "" {
		if len(producible) == 0 {
			return ""
		}
		return fmt.Sprintf("run returned error %q but the reference says outputs %v are producible", short(ret.Err, 300), producible)
	}
	st, declared := m.OutStatus[ret.OutputID]
	if !declared {
		return fmt.Sprintf("returned undeclared output id %q", ret.OutputID)
	}
	if st != vcase.Produced {
		return fmt.Sprintf("returned output %q whose dependencies were not produced (reference status %s; producible %v)", ret.OutputID, st, producible)
	}
	if f := m.OutFault[ret.OutputID]; f != nil {
		return fmt.Sprintf("returned output %q although its evaluation faults (%s: %s)", ret.OutputID, f.Where, f.Reason)
	}
	if d := vcase.Match(m.OutData[ret.OutputID], ret.Data); d != "" {
		return fmt.Sprintf("output %q data differs from the reference: %s", ret.OutputID, d)
	}
	return ""
}

func TestC03(t *testing.T) {
	p := detProfile()
	p.MoreTwoRefs = 4 // results computed from two producers: the result has to wait for both
	runProperty(t, "C03",
		func(rt *rapid.T) *vcase.Case { return vcase.GenCase(rt, p, "C03") },
		func(st *Stats, c *vcase.Case) string {
			m := vcase.NewModel(c.Main, c.Subs, vcase.NormalizeInput(c.Main, c.InputDoc), c.Script, nil)
			ans := RunCase(c.Request("run"))
			if ans.PrepareErr != "" {
				return "generated program rejected by Prepare (generator soundness): " + short(ans.PrepareErr, 400)
			}
			if owner, _ := anomaly(ans); owner != "" && owner != "C03" {
				st.ForeignAnomaly(owner, c)
				return ""
			}
			if ans.Returned.Err != "" && strings.Contains(ans.Returned.Err, fallbackText) && len(m.Producible()) > 0 {
				if again := fallbackRepeats(c); again != "" {
					st.Record(c, true, append(c.Labels, "fallback-error-confirmed-by-rerun"))
					return fmt.Sprintf("the run repeatedly ends with the fallback verdict %q although the reference says outputs %v are producible", short(again, 120), m.Producible())
				}
				st.ForeignAnomaly("C09")
				return ""
			}
			failing := false
			for _, b := range c.Script.Steps {
				if b.Outcome != "success" && b.Outcome != "" {
					failing = true
				}
			}
			for _, d := range c.Script.Deploys {
				if d.FailRun || d.MismatchRun || d.BadWritesRun {
					failing = true
				}
			}
			st.Record(c, len(c.Main.Outputs) >= 2 || failing, append(c.Labels, fmt.Sprintf("producible:%d", len(m.Producible()))))
			return checkResult(c, m, (*returned)(ans.Returned))
		})
}

//go:build verif

package props

import (
	"fmt"
	"testing"

	"go.flow.arcalot.io/engine/internal/verif/vcase"
	"go.flow.arcalot.io/engine/internal/verif/vplug"
	"pgregory.net/rapid"
)

func faultProfile() vcase.Profile {
	p := detProfile()
	p.Name = "faulting"
	p.Faults = true
	p.Outcomes = []string{"success", "success", "success", "error", "alt", "crash", "bad_output", "undeclared"}
	return p
}

// failingBurst is a loop whose 32-64 items all fail at once under a parallelism of 8-32: the
// failure bookkeeping of many items runs at the same instant.
func failingBurst(rt *rapid.T) *vcase.Case {
	n := rapid.IntRange(32, 64).Draw(rt, "burst.n")
	par := rapid.IntRange(8, 32).Draw(rt, "burst.par")
	itemIn := []vcase.InField{{Name: "k", Type: "string", Required: true}, {Name: "n", Type: "int", Required: true}}
	w := &vcase.Step{ID: "w", Kind: "plugin", Op: "op", Src: "vp://loop_w", Input: vcase.MapVal([]string{"key", "a"},
		[]*vcase.Val{vcase.ExprVal(&vcase.Expr{K: "in", Field: "k"}), vcase.ExprVal(&vcase.Expr{K: "in", Field: "n"})})}
	sub := &vcase.Program{Input: itemIn, Steps: []*vcase.Step{w}, Outputs: []*vcase.Output{{ID: "success", Val: vcase.MapVal([]string{"r"},
		[]*vcase.Val{vcase.ExprVal(&vcase.Expr{K: "out", Step: "w", Stage: "outputs", Output: "success", Path: []string{"v"}})})}}}
	items := &vcase.Val{K: "list"}
	c := &vcase.Case{Prop: "C07", Profile: "motif:burst-of-failing-items", Subs: map[string]*vcase.Program{"sub.yaml": sub}, InputDoc: map[string]any{}}
	c.Script.Steps = map[string]vplug.Behaviour{}
	c.Script.Deploys = map[string]vplug.DeployBehaviour{}
	outcome := rapid.SampledFrom([]string{"crash", "bad_output", "error", "mixed"}).Draw(rt, "burst.outcome")
	for i := 0; i < n; i++ {
		key := fmt.Sprintf("loop#%d", i)
		items.Vals = append(items.Vals, vcase.MapVal([]string{"k", "n"}, []*vcase.Val{vcase.LitVal(vcase.StrLit(key)), vcase.LitVal(vcase.IntLit(int64(i)))}))
		o := outcome
		if o == "mixed" {
			o = []string{"crash", "bad_output", "error", "success"}[i%4]
		}
		c.Script.Steps[key] = vplug.Behaviour{Outcome: o}
	}
	loop := &vcase.Step{ID: "loop", Kind: "foreach", Workflow: "sub.yaml", Items: items, Parallelism: vcase.LitVal(vcase.IntLit(int64(par)))}
	c.Main = &vcase.Program{Steps: []*vcase.Step{loop}, Outputs: []*vcase.Output{
		{ID: "success", Val: vcase.MapVal([]string{"r"}, []*vcase.Val{vcase.ExprVal(&vcase.Expr{K: "out", Step: "loop", Stage: "outputs", Output: "success"})})},
		{ID: "failed", Val: vcase.MapVal([]string{"e"}, []*vcase.Val{vcase.ExprVal(&vcase.Expr{K: "out", Step: "loop", Stage: "failed", Output: "error"})})}}}
	c.Labels = []string{"motif:burst-of-failing-items", "outcome:" + outcome}
	return c
}

func TestC07(t *testing.T) {
	p := faultProfile()
	// Arithmetic / functions over plugin integers and references into the struct-valued
	// crashed.error / deploy_failed.error fail at run time on this engine (findings K3, K2):
	// for C07 that is exactly the domain - they must surface as errors, not crashes.
	p.IntArithOnOutputs = true
	p.StructFieldRefs = true
	runProperty(t, "C07",
		func(rt *rapid.T) *vcase.Case {
			if rapid.IntRange(0, 39).Draw(rt, "burst?") == 0 {
				return failingBurst(rt)
			}
			return vcase.GenCase(rt, p, "C07")
		},
		func(st *Stats, c *vcase.Case) string {
			m := vcase.NewModel(c.Main, c.Subs, vcase.NormalizeInput(c.Main, c.InputDoc), c.Script, nil)
			ans := RunCase(c.Request("run"))
			if ans.PrepareErr != "" {
				return "generated program rejected by Prepare (generator soundness): " + short(ans.PrepareErr, 400)
			}
			owner, detail := anomaly(ans)
			if owner != "" && owner != "C07" {
				st.ForeignAnomaly(owner, c)
				return ""
			}
			misbehaving := false
			for _, b := range c.Script.Steps {
				switch b.Outcome {
				case "crash", "bad_output", "undeclared":
					misbehaving = true
				}
			}
			for _, d := range c.Script.Deploys {
				if d.MismatchRun || d.BadWritesRun {
					misbehaving = true
				}
			}
			labels := append([]string{}, c.Labels...)
			if len(m.Faults) > 0 {
				labels = append(labels, "reference-predicts-fault")
			}
			st.Record(c, len(m.Faults) > 0 || misbehaving, labels)
			if owner == "C07" {
				return "the run crashed instead of returning an error: " + short(detail, 1500)
			}
			ret := ans.Returned
			if ret.Err == "" {
				// an output was returned: it must be one the reference can evaluate
				if f := m.OutFault[ret.OutputID]; f != nil {
					return fmt.Sprintf("returned output %q although its expression faults (%s: %s)", ret.OutputID, f.Where, f.Reason)
				}
			}
			return ""
		})
}

//go:build verif

package props

import (
	"fmt"
	"testing"

	"go.flow.arcalot.io/engine/internal/verif/vcase"
	"pgregory.net/rapid"
)

func faultProfile() vcase.Profile {
	p := detProfile()
	p.Name = "faulting"
	p.Faults = true
	p.Outcomes = []string{"success", "success", "success", "error", "alt", "crash", "bad_output", "undeclared"}
	return p
}

func TestC07(t *testing.T) {
	p := faultProfile()
	// Arithmetic / functions over plugin integers and references into the struct-valued
	// crashed.error / deploy_failed.error fail at run time on this engine (findings K3, K2):
	// for C07 that is exactly the domain - they must surface as errors, not crashes.
	p.IntArithOnOutputs = true
	p.StructFieldRefs = true
	runProperty(t, "C07",
		func(rt *rapid.T) *vcase.Case { return vcase.GenCase(rt, p, "C07") },
		func(st *Stats, c *vcase.Case) string {
			m := vcase.NewModel(c.Main, c.Subs, vcase.NormalizeInput(c.Main, c.InputDoc), c.Script, nil)
			ans := RunCase(c.Request("run"))
			if ans.PrepareErr != "" {
				return "generated program rejected by Prepare (generator soundness): " + short(ans.PrepareErr, 400)
			}
			owner, detail := anomaly(ans)
			if owner != "" && owner != "C07" {
				st.ForeignAnomaly(owner, c)
				return ""
			}
			misbehaving := false
			for _, b := range c.Script.Steps {
				switch b.Outcome {
				case "crash", "bad_output", "undeclared":
					misbehaving = true
				}
			}
			for _, d := range c.Script.Deploys {
				if d.MismatchRun || d.BadWritesRun {
					misbehaving = true
				}
			}
			labels := append([]string{}, c.Labels...)
			if len(m.Faults) > 0 {
				labels = append(labels, "reference-predicts-fault")
			}
			st.Record(c, len(m.Faults) > 0 || misbehaving, labels)
			if owner == "C07" {
				return "the run crashed instead of returning an error: " + short(detail, 1500)
			}
			ret := ans.Returned
			if ret.Err == "" {
				// an output was returned: it must be one the reference can evaluate
				if f := m.OutFault[ret.OutputID]; f != nil {
					return fmt.Sprintf("returned output %q although its expression faults (%s: %s)", ret.OutputID, f.Where, f.Reason)
				}
			}
			return ""
		})
}

//go:build verif

package props

import (
	"fmt"
	"strings"
	"testing"

	"go.flow.arcalot.io/engine/internal/verif/vcase"
	"go.flow.arcalot.io/engine/internal/verif/vplug"
	"go.flow.arcalot.io/engine/internal/verif/vrun"
	"pgregory.net/rapid"
)

func racyProfile() vcase.Profile {
	return vcase.Profile{
		Name: "racy", MinSteps: 1, MaxSteps: 6,
		Outcomes:   []string{"success", "success", "error", "crash", "never", "never", "alt", "bad_output"},
		DeployFail: true, DeployOdd: true, Foreach: true, Tags: true, Enabled: true, WaitFor: true, StopIf: true, SoftOpt: true,
		EngineOuts: true, MaxOutputs: 3, MaxDelayMs: 25, NeverOK: true, ForeachFailures: true, IntArithOnOutputs: true, StructFieldRefs: true,
		LiteralEnabled: true, ClosedRefs: true, // (excluded while K11 was open; K14 cases are recognised and tamed)
	}
}

// addCancelTrigger adds a caller cancellation at a generated instant of some step's life.
func addCancelTrigger(rt *rapid.T, c *vcase.Case) string {
	var keys []string
	for _, s := range c.Main.Steps {
		if s.Kind == "plugin" || s.Kind == "" {
			keys = append(keys, s.ID)
		}
	}
	kind := rapid.SampledFrom([]string{"before-anything", "after-ms", "deploy-begin", "deploy-held", "deploy-held-long", "exec-start", "exec-end", "exec-start+ms"}).Draw(rt, "cancel.when")
	if len(keys) == 0 && kind != "before-anything" {
		kind = "after-ms"
	}
	switch kind {
	case "before-anything":
		c.Triggers = append(c.Triggers, vrun.Trigger{Action: "cancel", AfterMs: 0})
	case "after-ms":
		c.Triggers = append(c.Triggers, vrun.Trigger{Action: "cancel", AfterMs: rapid.IntRange(1, 40).Draw(rt, "cancel.ms")})
	case "deploy-begin":
		k := rapid.SampledFrom(keys).Draw(rt, "cancel.step")
		c.Triggers = append(c.Triggers, vrun.Trigger{Action: "cancel", On: "deploy-begin:vp://" + k})
	case "deploy-held":
		k := rapid.SampledFrom(keys).Draw(rt, "cancel.step")
		d := c.Script.Deploys["vp://"+k]
		d.DelayMs = rapid.IntRange(20, 80).Draw(rt, "cancel.hold")
		c.Script.Deploys["vp://"+k] = d
		c.Triggers = append(c.Triggers, vrun.Trigger{Action: "cancel", On: "deploy-begin:vp://" + k, AfterMs: rapid.IntRange(1, 15).Draw(rt, "cancel.ms")})
	case "deploy-held-long":
		// a deployment that would take far longer than any bound: the deployer honours its context,
		// so the cancellation has to reach it
		k := rapid.SampledFrom(keys).Draw(rt, "cancel.step")
		d := c.Script.Deploys["vp://"+k]
		d.DelayMs = 30000
		c.Script.Deploys["vp://"+k] = d
		c.Triggers = append(c.Triggers, vrun.Trigger{Action: "cancel", On: "deploy-begin:vp://" + k, AfterMs: rapid.IntRange(1, 40).Draw(rt, "cancel.ms")})
	case "exec-start":
		k := rapid.SampledFrom(keys).Draw(rt, "cancel.step")
		c.Triggers = append(c.Triggers, vrun.Trigger{Action: "cancel", On: "exec-start:" + k})
	case "exec-end":
		k := rapid.SampledFrom(keys).Draw(rt, "cancel.step")
		c.Triggers = append(c.Triggers, vrun.Trigger{Action: "cancel", On: "exec-end:" + k})
	case "exec-start+ms":
		k := rapid.SampledFrom(keys).Draw(rt, "cancel.step")
		c.Triggers = append(c.Triggers, vrun.Trigger{Action: "cancel", On: "exec-start:" + k, AfterMs: rapid.IntRange(1, 20).Draw(rt, "cancel.ms")})
	}
	// the chosen event may never happen (the step may never get that far): cancel anyway later,
	// otherwise a run that legitimately waits for a never-ending step would never be cancelled
	c.Triggers = append(c.Triggers, vrun.Trigger{Action: "cancel", AfterMs: 250})
	return "cancel:" + kind
}

// tuneCancelBehaviour gives never-ending / slow steps a generated reaction to cancellation and a
// small closure timeout so that runs end quickly.
func tuneCancelBehaviour(rt *rapid.T, c *vcase.Case) {
	for _, k := range vplug.SortedKeys(c.Script.Steps) {
		b := c.Script.Steps[k]
		switch rapid.IntRange(0, 2).Draw(rt, "oncancel."+k) {
		case 0:
			b.OnCancel, b.CancelDelayMs = "alt", 0
		case 1:
			b.OnCancel, b.CancelDelayMs = "alt", rapid.IntRange(1, 60).Draw(rt, "canceldelay."+k)
		case 2:
			b.OnCancel = "ignore"
		}
		c.Script.Steps[k] = b
	}
	for _, s := range c.Main.Steps {
		if s.Kind == "plugin" || s.Kind == "" {
			ms := rapid.IntRange(20, 300).Draw(rt, "closure."+s.ID)
			if rapid.IntRange(0, 4).Draw(rt, "closure0."+s.ID) == 0 {
				ms = 0
			}
			s.ClosureTimeoutMs = vcase.LitVal(vcase.IntLit(int64(ms)))
			// some deployments take a while to go away
			if rapid.IntRange(0, 2).Draw(rt, "closedelay?."+s.ID) == 0 {
				src := s.Src
				if src == "" {
					src = "vp://" + s.ID
				}
				d := c.Script.Deploys[src]
				d.CloseDelayMs = rapid.IntRange(5, 80).Draw(rt, "closedelay."+s.ID)
				c.Script.Deploys[src] = d
			}
		}
	}
}

// selfClosedMotif adds the steps of "a step that force-closes itself while the run ends": X never
// ends, ignores the cancel signal, has a (nearly) zero closure timeout and is stopped once Y is done;
// the run's output needs X's crashed.error, so the run is over while X's slow deployment is still
// going away.
func selfClosedMotif(rt *rapid.T, c *vcase.Case) {
	mk := func(id string) *vcase.Step {
		return &vcase.Step{ID: id, Kind: "plugin", Op: "op", Input: vcase.MapVal([]string{"key"}, []*vcase.Val{vcase.LitVal(vcase.StrLit(id))})}
	}
	x, y := mk("zx"), mk("zy")
	x.StopIf = vcase.ExprVal(&vcase.Expr{K: "out", Step: "zy", Stage: "outputs", Output: "success"})
	x.ClosureTimeoutMs = vcase.LitVal(vcase.IntLit(int64(rapid.SampledFrom([]int{0, 0, 10, 40}).Draw(rt, "zx.closure"))))
	c.Main.Steps = append(c.Main.Steps, x, y)
	c.Script.Steps["zx"] = vplug.Behaviour{Outcome: "never", OnCancel: "ignore"}
	c.Script.Steps["zy"] = vplug.Behaviour{Outcome: "success", DelayMs: rapid.IntRange(5, 40).Draw(rt, "zy.delay")}
	c.Script.Deploys["vp://zx"] = vplug.DeployBehaviour{CloseDelayMs: rapid.IntRange(30, 200).Draw(rt, "zx.closedelay")}
	c.Main.Outputs = []*vcase.Output{{ID: "success", Val: vcase.MapVal([]string{"e"}, []*vcase.Val{vcase.ExprVal(&vcase.Expr{K: "out", Step: "zx", Stage: "crashed", Output: "error"})})}}
	c.Labels = append(c.Labels, "motif:step-force-closes-itself-as-the-run-ends")
}

func genExitPathCase(rt *rapid.T, prop string) *vcase.Case {
	p := racyProfile()
	c := vcase.GenCase(rt, p, prop)
	c.WatchdogMs = 15000
	tuneCancelBehaviour(rt, c)
	path := rapid.SampledFrom([]string{"natural", "natural", "cancel", "cancel", "cancel", "start-failure", "probe-failure"}).Draw(rt, "exit-path")
	if path == "natural" && rapid.IntRange(0, 3).Draw(rt, "selfclosed?") == 0 {
		selfClosedMotif(rt, c)
	}
	switch path {
	case "cancel":
		c.Labels = append(c.Labels, addCancelTrigger(rt, c))
	case "start-failure":
		c.Main.Steps = append(c.Main.Steps, &vcase.Step{ID: "zfail", Kind: "vstartfail", Fail: true})
	case "probe-failure":
		var keys []string
		for _, s := range c.Main.Steps {
			if s.Kind == "plugin" || s.Kind == "" {
				keys = append(keys, s.ID)
			}
		}
		if len(keys) > 0 {
			k := rapid.SampledFrom(keys).Draw(rt, "probe.step")
			d := c.Script.Deploys["vp://"+k]
			if rapid.Bool().Draw(rt, "probe.badwrites") {
				d.BadWritesProbe = true
			} else {
				d.FailProbe = true
			}
			c.Script.Deploys["vp://"+k] = d
		}
	}
	if path != "cancel" {
		// The reference does not predict stop conditions; with one in the program a never-ending step
		// could make the run wait legitimately for ever, so such steps finish here.
		hasStop := false
		for _, s := range c.Main.Steps {
			if s.StopIf != nil {
				hasStop = true
			}
		}
		if hasStop {
			for _, k := range vplug.SortedKeys(c.Script.Steps) {
				if b := c.Script.Steps[k]; b.Outcome == "never" && k != "zx" { // (zx: the motif's step is stopped by zy)
					b.Outcome = "success"
					c.Script.Steps[k] = b
				}
			}
		}
	}
	c.Labels = append(c.Labels, "exit-path:"+path)
	return c
}

func TestC05(t *testing.T) {
	runProperty(t, "C05",
		func(rt *rapid.T) *vcase.Case { return genExitPathCase(rt, "C05") },
		func(st *Stats, c *vcase.Case) string {
			tameNever2(c)
			ans := RunCase(c.Request("run"))
			owner, detail := anomaly(ans)
			if owner != "" && owner != "C05" {
				st.ForeignAnomaly(owner, c)
				return ""
			}
			labels := append([]string{}, c.Labels...)
			liveAtEnd := false
			if ans.PrepareErr != "" {
				labels = append(labels, "ended-in:prepare-error")
				liveAtEnd = ans.DeploysProbe > 0
			} else if ans.Returned != nil && ans.Returned.Err != "" {
				labels = append(labels, "ended-in:run-error")
			} else {
				labels = append(labels, "ended-in:output")
			}
			// non-trivial: at the moment the run decided to end, a deployment was live
			// (approximated from the log: some run-phase connection was closed only after shutdown began
			// or an execution was interrupted)
			for _, e := range ans.Log {
				if e.Kind == "signal" || e.Kind == "ctx-done" {
					liveAtEnd = true
				}
			}
			if ans.DeploysRun > 0 && (ans.TCancelUs > 0 || strings.Contains(fmt.Sprint(c.Labels), "start-failure")) {
				liveAtEnd = true
			}
			st.Record(c, liveAtEnd, labels)
			if ans.PrepareErr != "" {
				if ans.DeploysProbe != ans.ClosesProbe {
					return fmt.Sprintf("Prepare returned an error but left %d schema-probe deployments open (deployed %d, closed %d)", ans.DeploysProbe-ans.ClosesProbe, ans.DeploysProbe, ans.ClosesProbe)
				}
				if len(ans.Leaks) > 0 {
					return fmt.Sprintf("Prepare returned an error but %d goroutines are still alive, e.g. %s %v", len(ans.Leaks), ans.Leaks[0].Header, ans.Leaks[0].Frames)
				}
				return ""
			}
			if owner == "C05" {
				msg := "after Execute returned: " + detail
				if len(ans.Leaks) > 0 {
					msg += fmt.Sprintf("; first leaked goroutine: %s %v", ans.Leaks[0].Header, ans.Leaks[0].Frames)
				}
				return msg
			}
			if ans.LiveExec != 0 {
				return fmt.Sprintf("after Execute returned %d plugin executions are still in progress", ans.LiveExec)
			}
			return ""
		})
}

// tameNever2 makes sure a natural run can end: it applies tameNever only when no cancellation is planned.
func tameNever2(c *vcase.Case) {
	for _, l := range c.Labels {
		if l == "motif:step-force-closes-itself-as-the-run-ends" {
			return // its only never-ending step is stopped by the motif itself
		}
	}
	if len(c.Triggers) == 0 {
		tameNever(c)
	}
}

//go:build verif

package props

import (
	"encoding/base64"
	"encoding/json"
	"os"
	"path/filepath"
	"strconv"
	"strings"
	"testing"

	"go.flow.arcalot.io/engine/internal/verif/vcase"
	"go.flow.arcalot.io/engine/internal/verif/vrun"
)

// FuzzEngineParse is the coverage-guided companion of C11's generated search: arbitrary bytes as
// workflow file and as input file go through engine.New / Parse / Run in this process (scripted
// deployer, in-memory file cache). The oracle is C11's: value or error within the watchdog, no panic.
// Seeds: the 14 canonical workflows of the C09 motifs, the smoke workflow and the hostile YAML shapes.
// It is driven by `./check C11 --tier thorough` (tools/nativefuzz.py), never by the quick tier.
func FuzzEngineParse(f *testing.F) {
	for _, sd := range fuzzSeeds() {
		f.Add(sd[0], sd[1])
	}
	f.Fuzz(func(t *testing.T, wf []byte, in []byte) {
		if len(wf) > 1<<15 || len(in) > 1<<12 {
			t.Skip()
		}
		req := &vrun.EngineRequest{
			Files:        map[string]string{"workflow.yaml": base64.StdEncoding.EncodeToString(wf)},
			WorkflowFile: "workflow.yaml", InputB64: base64.StdEncoding.EncodeToString(in),
			Run: true, InMemory: true, WatchdogMs: 10000,
		}
		ans := vrun.RunEngine(req)
		switch {
		case ans.HarnessErr != "":
			t.Skip(ans.HarnessErr)
		case ans.ParsePanic != "":
			t.Fatalf("Parse panicked: %s", ans.ParsePanic)
		case ans.RunPanic != "":
			t.Fatalf("Run panicked: %s", ans.RunPanic)
		case ans.Hang != nil:
			t.Fatalf("%s did not return within the watchdog", ans.HangPhase)
		}
	})
}

// fuzzSeeds is the seed corpus, in the order in which the fuzzer numbers it (seed#0, seed#1, ...).
func fuzzSeeds() [][2][]byte {
	var out [][2][]byte
	add := func(wf, in string) { out = append(out, [2][]byte{[]byte(wf), []byte(in)}) }
	add(smokeWF, "i: 3\n")
	for _, mc := range vcase.Motifs() {
		in := "{}"
		if len(mc.InputDoc) > 0 {
			in = vcase.RenderInputYAML(mc.InputDoc)
		}
		add(vcase.RenderYAML(mc.Main), in)
	}
	for _, shape := range vcase.YAMLShapes {
		shape = strings.TrimPrefix(shape, "TEXT:")
		add("version: v0.2.0\ninput: "+shape+"\nsteps: "+shape+"\noutputs: "+shape+"\n", shape)
		add(strings.Replace(smokeWF, "!expr $.input.i", shape, 1), "i: "+shape+"\n")
	}
	return out
}

// TestFuzzSeedToCase writes seed number VERIF_FUZZ_SEED as a C11 replay case (a seed that fails or
// kills the process is not saved by the fuzzer itself).
func TestFuzzSeedToCase(t *testing.T) {
	nr := os.Getenv("VERIF_FUZZ_SEED")
	if nr == "" {
		t.Skip("conversion helper")
	}
	n, err := strconv.Atoi(nr)
	seeds := fuzzSeeds()
	if err != nil || n < 0 || n >= len(seeds) {
		t.Fatalf("no such seed %q", nr)
	}
	pc := &ParseCase{Class: "native-fuzz", Desc: "seed corpus entry " + nr + " of FuzzEngineParse",
		Files: map[string]string{"workflow.yaml": string(seeds[n][0])}, WorkflowFile: "workflow.yaml", Input: string(seeds[n][1]), NonTrivial: true}
	out, _ := json.MarshalIndent(map[string]any{"property": "C11", "message": pc.Desc, "case": pc}, "", " ")
	if err := os.WriteFile(os.Getenv("VERIF_FAIL_OUT"), out, 0o644); err != nil {
		t.Fatal(err)
	}
}

func init() {
	// the fuzz workers share the scratch directory base with the other harness code
	if os.Getenv("VERIF_SCRATCH") == "" {
		_ = os.Setenv("VERIF_SCRATCH", os.TempDir())
	}
}

// TestFuzzCrasherToCase converts a crasher saved by the native fuzzer (corpus file format v1 with two
// []byte values) into a C11 replay case.
func TestFuzzCrasherToCase(t *testing.T) {
	path := os.Getenv("VERIF_FUZZ_CRASHER")
	if path == "" {
		t.Skip("conversion helper")
	}
	raw, err := os.ReadFile(path)
	if err != nil {
		t.Fatal(err)
	}
	var vals []string
	for _, line := range strings.Split(string(raw), "\n") {
		line = strings.TrimSpace(line)
		if !strings.HasPrefix(line, "[]byte(") || !strings.HasSuffix(line, ")") {
			continue
		}
		q := strings.TrimSuffix(strings.TrimPrefix(line, "[]byte("), ")")
		s, err := strconv.Unquote(q)
		if err != nil {
			t.Fatalf("cannot unquote %q: %v", q, err)
		}
		vals = append(vals, s)
	}
	if len(vals) != 2 {
		t.Fatalf("expected two []byte values in %s, found %d", path, len(vals))
	}
	pc := &ParseCase{Class: "native-fuzz", Desc: "input saved by the native fuzzer (" + filepath.Base(path) + ")",
		Files: map[string]string{"workflow.yaml": vals[0]}, WorkflowFile: "workflow.yaml", Input: vals[1], NonTrivial: true}
	out, _ := json.MarshalIndent(map[string]any{"property": "C11", "message": pc.Desc, "case": pc}, "", " ")
	if err := os.WriteFile(os.Getenv("VERIF_FAIL_OUT"), out, 0o644); err != nil {
		t.Fatal(err)
	}
}

//go:build verif

package props

import (
	"fmt"
	"os"
	"sort"
	"strings"
	"testing"

	"go.flow.arcalot.io/engine/internal/verif/vplug"
	"go.flow.arcalot.io/engine/internal/verif/vrun"
	"go.flow.arcalot.io/engine/internal/verif/vsched"
	"pgregory.net/rapid"
)

func genAction(rt *rapid.T, label string) vrun.Action {
	kind := rapid.SampledFrom([]string{
		"provide-deploy", "provide-deploy", "provide-enabled", "provide-enabled", "provide-starting", "provide-starting",
		"provide-stop", "close", "force-close", "release-deploy", "release-plugin", "release-plugin", "sleep",
	}).Draw(rt, label+".kind")
	a := vrun.Action{Kind: kind}
	switch kind {
	case "provide-deploy":
		a.Arg = rapid.SampledFrom([]string{"nil", "nil", "valid", "invalid"}).Draw(rt, label+".arg")
	case "provide-enabled", "provide-stop":
		a.Arg = rapid.SampledFrom([]string{"true", "true", "false"}).Draw(rt, label+".arg")
	case "provide-starting":
		a.Arg = rapid.SampledFrom([]string{"valid", "valid", "valid", "invalid", "nil"}).Draw(rt, label+".arg")
	case "sleep":
		a.Arg = fmt.Sprint(rapid.IntRange(1, 30).Draw(rt, label+".ms"))
	}
	return a
}

func genC12(rt *rapid.T) *vrun.C12Request {
	req := &vrun.C12Request{Op: rapid.SampledFrom([]string{"op", "op", "op_nc"}).Draw(rt, "op")}
	// environment
	if rapid.Bool().Draw(rt, "deploy.gated") {
		req.Deploy.Gate = "release:deploy"
	}
	switch rapid.IntRange(0, 9).Draw(rt, "deploy.kind") {
	case 0:
		req.Deploy.FailRun = true
	case 1:
		req.Deploy.MismatchRun = true
	case 2:
		req.Deploy.BadWritesRun = true
	}
	req.Deploy.DelayMs = rapid.IntRange(0, 10).Draw(rt, "deploy.delay")
	req.Plugin = vplug.Behaviour{
		Outcome: rapid.SampledFrom([]string{"success", "success", "error", "crash", "bad_output", "undeclared", "never"}).Draw(rt, "plugin.outcome"),
		DelayMs: rapid.IntRange(0, 15).Draw(rt, "plugin.delay"),
	}
	if rapid.Bool().Draw(rt, "plugin.gated") {
		req.Plugin.Gate = "release:plugin"
	}
	req.Plugin.OnCancel = rapid.SampledFrom([]string{"alt", "alt", "ignore"}).Draw(rt, "plugin.oncancel")
	req.Plugin.CancelDelayMs = rapid.IntRange(0, 20).Draw(rt, "plugin.canceldelay")
	// history: usually begins with (some of) the inputs that let the step advance, in any order,
	// each possibly overlapped with another action
	progress := rapid.IntRange(0, 3).Draw(rt, "progress")
	if rapid.IntRange(0, 9).Draw(rt, "progress.bias") < 6 {
		progress = 3
		req.Deploy.FailRun, req.Deploy.MismatchRun, req.Deploy.BadWritesRun = false, false, false
	}
	pre := []vrun.Action{{Kind: "provide-deploy", Arg: "nil"}, {Kind: "provide-enabled", Arg: "true"}, {Kind: "provide-starting", Arg: "valid"}}
	pre = rapid.Permutation(pre).Draw(rt, "progress.order")[:progress]
	for i, a := range pre {
		round := []vrun.Action{a}
		if rapid.IntRange(0, 3).Draw(rt, fmt.Sprintf("progress.%d.overlap", i)) == 0 {
			round = append(round, genAction(rt, fmt.Sprintf("progress.%d.other", i)))
		}
		req.Rounds = append(req.Rounds, round)
		req.Quiesce = append(req.Quiesce, rapid.Bool().Draw(rt, fmt.Sprintf("progress.%d.quiesce", i)))
	}
	if progress > 0 && req.Deploy.Gate != "" {
		req.Rounds = append(req.Rounds, []vrun.Action{{Kind: "release-deploy"}})
		req.Quiesce = append(req.Quiesce, rapid.Bool().Draw(rt, "progress.release.quiesce"))
	}
	n := rapid.IntRange(1, 7).Draw(rt, "rounds")
	defer func() {
		// A step without cancel-signal handler has its stop_if input disabled by its lifecycle
		// schema (Prepare rejects such workflows), so a stop condition is not a legal input for it.
		if req.Op == "op_nc" {
			for _, round := range req.Rounds {
				for i := range round {
					if round[i].Kind == "provide-stop" {
						round[i] = vrun.Action{Kind: "sleep", Arg: "1"}
					}
				}
			}
		}
	}()
	for r := 0; r < n; r++ {
		k := 1
		if rapid.IntRange(0, 2).Draw(rt, fmt.Sprintf("round%d.two", r)) == 0 {
			k = 2
		}
		var round []vrun.Action
		for i := 0; i < k; i++ {
			round = append(round, genAction(rt, fmt.Sprintf("round%d.%d", r, i)))
		}
		req.Rounds = append(req.Rounds, round)
		req.Quiesce = append(req.Quiesce, rapid.Bool().Draw(rt, fmt.Sprintf("round%d.quiesce", r)))
	}
	// optional delay plan on the provider's notification / state sites
	if sites := c12Sites(); len(sites) > 0 && rapid.Bool().Draw(rt, "plan?") {
		req.Plan = vsched.Plan{}
		for i := 0; i < rapid.IntRange(1, 4).Draw(rt, "plan.n"); i++ {
			s := sites[rapid.IntRange(0, len(sites)-1).Draw(rt, fmt.Sprintf("plan.site%d", i))]
			req.Plan[s] = vsched.SitePlan{DelayMs: rapid.IntRange(1, 30).Draw(rt, fmt.Sprintf("plan.delay%d", i)), First: rapid.IntRange(0, 2).Draw(rt, fmt.Sprintf("plan.first%d", i))}
		}
	}
	return req
}

var c12SiteCache []string

func c12Sites() []string {
	if c12SiteCache != nil {
		return c12SiteCache
	}
	raw, err := os.ReadFile("build/sites.json")
	if err != nil {
		return nil
	}
	for _, line := range strings.Split(string(raw), "\"") {
		if strings.HasPrefix(line, "plugin/provider.go:") {
			c12SiteCache = append(c12SiteCache, line)
		}
	}
	sort.Strings(c12SiteCache)
	return c12SiteCache
}

func checkC12(st *Stats, req *vrun.C12Request) string {
	ans := CallC12(req)
	concurrent, closes, natural := false, 0, false
	for _, r := range req.Rounds {
		if len(r) > 1 {
			concurrent = true
		}
		for _, a := range r {
			if a.Kind == "close" || a.Kind == "force-close" {
				closes++
			}
			if a.Kind == "release-plugin" {
				natural = true
			}
		}
	}
	labels := []string{"op:" + req.Op, "outcome:" + req.Plugin.Outcome, fmt.Sprintf("concurrent-round:%v", concurrent), fmt.Sprintf("explicit-close:%v", closes > 0), fmt.Sprintf("plan:%v", len(req.Plan) > 0)}
	reached := map[string]bool{}
	for _, e := range ans.Events {
		if e.Kind == "stage-change" {
			reached[e.Stage] = true
		}
		if e.Kind == "complete" {
			reached["completed-in:"+e.PrevStage] = true
		}
	}
	for k := range reached {
		labels = append(labels, "reached:"+k)
	}
	st.Record(req, concurrent || (closes > 0 && natural), labels)
	if ans.ProcessDeath != "" && strings.Contains(ans.ProcessDeath, "send on closed channel") && strings.Contains(ans.ProcessDeath, "atp.(*atpServerSession).runStep") {
		st.ForeignAnomaly("HARNESS-plugin-side-panic", req)
		return "" // panic of the SDK's plugin-side server, which lives in the worker only in this harness
	}
	if ans.ProcessDeath != "" {
		return "the step provider crashed the process: " + short(ans.ProcessDeath, 800)
	}
	if len(ans.Violations) > 0 {
		return strings.Join(ans.Violations, "; ") + " | actions: " + short(strings.Join(ans.ActionLog, ", "), 900)
	}
	return ""
}

func TestC12(t *testing.T) {
	runProperty(t, "C12", genC12, checkC12)
}

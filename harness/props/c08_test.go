//go:build verif

package props

import (
	"strings"
	"testing"

	"go.flow.arcalot.io/engine/internal/verif/vcase"
	"pgregory.net/rapid"
)

func TestC08(t *testing.T) {
	p := detProfile()
	p.Name = "type-soundness"
	p.StructFieldRefs = envInt("VERIF_ALLOW_K2", 1) == 1
	p.PreferProduced = 70
	p.ForeachFailures = true
	p.ObserveStageOutputs = true
	runProperty(t, "C08",
		func(rt *rapid.T) *vcase.Case { return vcase.GenCase(rt, p, "C08") },
		func(st *Stats, c *vcase.Case) string {
			m := vcase.NewModel(c.Main, c.Subs, vcase.NormalizeInput(c.Main, c.InputDoc), c.Script, nil)
			req := c.Request("run")
			req.Validate = true
			ans := RunCase(req)
			if ok, _ := c.Extra["reject_ok"].(bool); ok && ans.PrepareErr != "" {
				st.Record(c, true, []string{"rejected-at-prepare(acceptable)"})
				return "" // hand-written regression case: rejecting the workflow is a correct answer too
			}
			if ans.PrepareErr != "" {
				return "generated program rejected by Prepare (generator soundness): " + short(ans.PrepareErr, 400)
			}
			owner, detail := anomaly(ans)
			if owner != "" && owner != "C08" {
				st.ForeignAnomaly(owner, c)
				return ""
			}
			engineOut := false
			for _, l := range c.Labels {
				if l == "ref:engine-output" || l == "kind:foreach" {
					engineOut = true
				}
			}
			st.Record(c, engineOut, c.Labels)
			if owner == "C08" {
				return "internal consistency error: " + short(detail, 600)
			}
			if len(ans.Invalid) > 0 {
				return "value does not conform to its declared schema: " + short(strings.Join(ans.Invalid, "; "), 600)
			}
			if ans.Returned.Err == "" && len(m.Producible()) > 0 {
				if msg := checkResult(c, m, (*returned)(ans.Returned)); msg != "" && strings.Contains(msg, "differs from the reference") {
					return "shape of returned data: " + msg
				}
			}
			return ""
		})
}

//go:build verif

package vcase

import (
	"fmt"
	"strings"

	"go.flow.arcalot.io/engine/internal/verif/vplug"
	"pgregory.net/rapid"
)

// GenTreeCase draws a C20 case: a tree of workflow files (depth up to 3, shared sub-workflows,
// sub-directories) whose main workflow has several outputs, among them `error`, and optionally an
// explicit output schema with generated error flags.
// spellRef draws a spelling of a file reference: as it is, with a leading "./", or with a doubled
// separator - all name the same file.
func spellRef(t *rapid.T, name, label string) string {
	switch rapid.IntRange(0, 3).Draw(t, label+".spelling") {
	case 1:
		return "./" + name
	case 2:
		if i := strings.Index(name, "/"); i > 0 {
			return name[:i] + "//" + name[i+1:]
		}
		return "./" + name
	}
	return ""
}

func GenTreeCase(t *rapid.T) *Case {
	itemIn := []InField{{Name: "k", Type: "string", Required: true}, {Name: "n", Type: "int", Required: true}}
	c := &Case{Prop: "C20", Profile: "tree", Subs: map[string]*Program{}, InputDoc: map[string]any{},
		Script: vplug.Script{Steps: map[string]vplug.Behaviour{}, Deploys: map[string]vplug.DeployBehaviour{}}}
	leafName := rapid.SampledFrom([]string{"leaf.yaml", "sub/leaf.yaml", "sub/deep/leaf.yaml"}).Draw(t, "leaf.name")
	leaf := &Program{Input: itemIn,
		Steps:   []*Step{{ID: "w", Kind: "plugin", Op: "op", Src: "vp://leaf_w", Input: MapVal([]string{"key", "a"}, []*Val{ExprVal(&Expr{K: "in", Field: "k"}), ExprVal(&Expr{K: "in", Field: "n"})})}},
		Outputs: []*Output{{ID: "success", Val: MapVal([]string{"r"}, []*Val{ExprVal(&Expr{K: "out", Step: "w", Stage: "outputs", Output: "success", Path: []string{"v"}})})}}}
	c.Subs[leafName] = leaf
	depth := rapid.IntRange(1, 3).Draw(t, "depth")
	c.Labels = append(c.Labels, fmt.Sprintf("depth:%d", depth))
	// chain of intermediate files: mid1 -> mid2 -> leaf
	next := leafName
	for d := depth - 1; d >= 1; d-- {
		name := rapid.SampledFrom([]string{fmt.Sprintf("mid%d.yaml", d), fmt.Sprintf("sub/mid%d.yaml", d)}).Draw(t, fmt.Sprintf("mid%d.name", d))
		mid := &Program{Input: itemIn,
			Steps: []*Step{{ID: "in", Kind: "foreach", Workflow: next, WorkflowSpelling: spellRef(t, next, fmt.Sprintf("mid%d.ref", d)), Parallelism: LitVal(IntLit(2)), Items: &Val{K: "list", Vals: []*Val{
				MapVal([]string{"k", "n"}, []*Val{ExprVal(&Expr{K: "bin", Op: "+", Args: []*Expr{{K: "in", Field: "k"}, {K: "lit", Lit: StrLit(fmt.Sprintf(".m%d#a", d))}}}), ExprVal(&Expr{K: "in", Field: "n"})}),
				MapVal([]string{"k", "n"}, []*Val{ExprVal(&Expr{K: "bin", Op: "+", Args: []*Expr{{K: "in", Field: "k"}, {K: "lit", Lit: StrLit(fmt.Sprintf(".m%d#b", d))}}}), LitVal(IntLit(int64(d)))}),
			}}}},
			Outputs: []*Output{{ID: "success", Val: MapVal([]string{"r"}, []*Val{ExprVal(&Expr{K: "out", Step: "in", Stage: "outputs", Output: "success"})})}}}
		c.Subs[name] = mid
		next = name
	}
	prog := &Program{Input: []InField{{Name: "i", Type: "int", Required: true}}}
	c.Main = prog
	c.InputDoc["i"] = rapid.Int64Range(0, 40).Draw(t, "i")
	nLoops := rapid.IntRange(1, 2).Draw(t, "loops")
	for l := 0; l < nLoops; l++ {
		id := fmt.Sprintf("loop%d", l)
		target := next
		if l == 1 && rapid.Bool().Draw(t, "loop1.shared-leaf") {
			target = leafName // a second loop shares the leaf directly
			c.Labels = append(c.Labels, "shared-subworkflow")
		}
		n := rapid.IntRange(1, 3).Draw(t, id+".n")
		items := &Val{K: "list"}
		for i := 0; i < n; i++ {
			items.Vals = append(items.Vals, MapVal([]string{"k", "n"}, []*Val{LitVal(StrLit(fmt.Sprintf("%s#%d", id, i))), ExprVal(&Expr{K: "in", Field: "i"})}))
		}
		prog.Steps = append(prog.Steps, &Step{ID: id, Kind: "foreach", Workflow: target, WorkflowSpelling: spellRef(t, target, id+".ref"), Items: items})
	}
	// a plain step decides which output is produced
	outcome := rapid.SampledFrom([]string{"success", "error", "alt", "crash"}).Draw(t, "decider.outcome")
	prog.Steps = append(prog.Steps, &Step{ID: "d", Kind: "plugin", Op: "op", Input: MapVal([]string{"key", "a"}, []*Val{LitVal(StrLit("d")), ExprVal(&Expr{K: "in", Field: "i"})})})
	c.Script.Steps["d"] = vplug.Behaviour{Outcome: outcome, DelayMs: 15}
	c.Labels = append(c.Labels, "decider:"+outcome)
	loopOut := ExprVal(&Expr{K: "out", Step: "loop0", Stage: "outputs", Output: "success"})
	ids := rapid.Permutation([]string{"success", "error", "other", "failure"}).Draw(t, "output.ids")
	bind := map[string]*Val{
		"success": ExprVal(&Expr{K: "out", Step: "d", Stage: "outputs", Output: "success", Path: []string{"v"}}),
		"error":   ExprVal(&Expr{K: "out", Step: "d", Stage: "outputs", Output: "error", Path: []string{"msg"}}),
		"alt":     ExprVal(&Expr{K: "out", Step: "d", Stage: "outputs", Output: "alt", Path: []string{"v"}}),
		"crash":   ExprVal(&Expr{K: "out", Step: "d", Stage: "crashed", Output: "error", Path: []string{"output"}}),
	}
	// each of the four step outcomes selects one declared output id
	for i, oc := range []string{"success", "error", "alt", "crash"} {
		prog.Outputs = append(prog.Outputs, &Output{ID: ids[i], Val: MapVal([]string{"which", "loop"}, []*Val{bind[oc], loopOut})})
	}
	if rapid.Bool().Draw(t, "explicit-schema") {
		prog.OutputSchemaErr = map[string]bool{}
		for _, o := range prog.Outputs {
			prog.OutputSchemaErr[o.ID] = rapid.Bool().Draw(t, "errflag."+o.ID)
		}
		c.Labels = append(c.Labels, "explicit-output-schema")
	}
	return c
}

//go:build verif

package vcase

import (
	"fmt"
	"strconv"

	"go.flow.arcalot.io/engine/internal/verif/vplug"
	"pgregory.net/rapid"
)

// InputMutation describes how a valid document was made invalid.
type InputMutation struct {
	Kind  string `json:"kind"`
	Field string `json:"field"`
}

func genFieldValue(t *rapid.T, f InField, label string) any {
	switch f.Type {
	case "int":
		lo, hi := int64(-1000), int64(1000)
		if f.Min != nil {
			lo = *f.Min
		}
		if f.Max != nil {
			hi = *f.Max
		}
		return rapid.Int64Range(lo, hi).Draw(t, label)
	case "string":
		lo, hi := 0, 12
		if f.Min != nil {
			lo = int(*f.Min)
		}
		if f.Max != nil {
			hi = int(*f.Max)
		}
		alphabet := "abcXYZ 09-_ü"
		if f.Min != nil {
			alphabet = "abcXYZ 09-_" // the schema library counts bytes; keep bounded strings ASCII
		}
		return rapid.StringOfN(rapid.RuneFrom([]rune(alphabet)), lo, hi, -1).Draw(t, label)
	case "bool":
		return rapid.Bool().Draw(t, label)
	case "enum":
		return rapid.SampledFrom([]string{"alpha", "beta", "gamma"}).Draw(t, label)
	case "pattern":
		// a regular expression: its unserialised form is not its serialised form
		return rapid.SampledFrom([]string{"^a+$", "[0-9]{2}", "x|y", ".*", "^$"}).Draw(t, label)
	case "float":
		return float64(rapid.IntRange(-40, 40).Draw(t, label)) / 8
	case "list_int":
		n := rapid.IntRange(0, 4).Draw(t, label+".n")
		l := make([]any, n)
		for i := range l {
			l[i] = rapid.Int64Range(-9, 99).Draw(t, fmt.Sprintf("%s.%d", label, i))
		}
		return l
	case "map_int":
		n := rapid.IntRange(0, 3).Draw(t, label+".n")
		m := map[string]any{}
		for i := 0; i < n; i++ {
			m[fmt.Sprintf("k%d", i)] = rapid.Int64Range(0, 50).Draw(t, fmt.Sprintf("%s.k%d", label, i))
		}
		return m
	case "obj":
		m := map[string]any{}
		for _, sf := range f.Fields {
			if sf.Required || rapid.Bool().Draw(t, label+"."+sf.Name+".present") {
				m[sf.Name] = genFieldValue(t, sf, label+"."+sf.Name)
			}
		}
		return m
	}
	panic("genFieldValue " + f.Type)
}

func genInField(t *rapid.T, name string, depth int) InField {
	types := []string{"int", "string", "bool", "float", "list_int", "map_int", "pattern", "enum"}
	if depth > 0 {
		types = append(types, "obj", "obj")
	}
	f := InField{Name: name, Type: rapid.SampledFrom(types).Draw(t, name+".type")}
	f.Required = rapid.IntRange(0, 9).Draw(t, name+".req") < 6
	switch f.Type {
	case "int":
		if rapid.Bool().Draw(t, name+".bounded") {
			// the schema of integer schemas only admits non-negative bounds
			lo := rapid.Int64Range(0, 5).Draw(t, name+".min")
			hi := lo + rapid.Int64Range(1, 100).Draw(t, name+".span")
			f.Min, f.Max = &lo, &hi
		}
		if !f.Required {
			lo, hi := int64(-100), int64(100)
			if f.Min != nil {
				lo, hi = *f.Min, *f.Max
			}
			f.Default = IntLit(rapid.Int64Range(lo, hi).Draw(t, name+".default"))
		}
	case "string":
		if rapid.Bool().Draw(t, name+".bounded") {
			lo := rapid.Int64Range(0, 2).Draw(t, name+".min")
			hi := lo + rapid.Int64Range(1, 8).Draw(t, name+".span")
			f.Min, f.Max = &lo, &hi
		}
		if !f.Required {
			d := "dflt"
			if f.Max != nil && int64(len(d)) > *f.Max {
				d = d[:*f.Max]
			}
			for f.Min != nil && int64(len(d)) < *f.Min {
				d += "x"
			}
			f.Default = StrLit(d)
		}
	case "bool":
		if !f.Required {
			f.Default = BoolLit(rapid.Bool().Draw(t, name+".default"))
		}
	case "float":
		if !f.Required {
			f.Default = FloatLit(float64(rapid.IntRange(-8, 8).Draw(t, name+".default")) / 4)
		}
	case "obj":
		n := rapid.IntRange(1, 3).Draw(t, name+".nsub")
		for i := 0; i < n; i++ {
			sf := genInField(t, fmt.Sprintf("%s_%d", name, i), depth-1)
			if sf.Type == "obj" || sf.Type == "map_int" || sf.Type == "list_int" {
				sf.Required = true
			}
			f.Fields = append(f.Fields, sf)
		}
		f.Required = true
	default:
		f.Required = true // lists and maps without defaults are always given
	}
	return f
}

// paths lists every referencable input path with its type; optional fields must carry a default.
type inPath struct {
	field string
	path  []string
	typ   string
}

func inputPaths(fields []InField, root string, prefix []string, out *[]inPath) {
	for _, f := range fields {
		field, path := root, append(append([]string{}, prefix...), f.Name)
		if root == "" {
			field, path = f.Name, nil
		}
		if !f.Required && f.Default == nil {
			continue
		}
		*out = append(*out, inPath{field, path, f.Type})
		if f.Type == "obj" {
			inputPaths(f.Fields, field, path, out)
		}
	}
}

// GenInputCase draws a C19 case: input schema, document (valid or invalid by one mutation),
// a program whose steps and outputs consume the input.
func GenInputCase(t *rapid.T) (*Case, *InputMutation) {
	prog := &Program{}
	c := &Case{Prop: "C19", Profile: "input", Main: prog, Subs: map[string]*Program{}, InputDoc: map[string]any{},
		Script: vplug.Script{Steps: map[string]vplug.Behaviour{}, Deploys: map[string]vplug.DeployBehaviour{}}}
	nf := rapid.IntRange(1, 5).Draw(t, "n_fields")
	for i := 0; i < nf; i++ {
		prog.Input = append(prog.Input, genInField(t, fmt.Sprintf("f%d", i), 2))
	}
	for _, f := range prog.Input {
		if f.Required || rapid.IntRange(0, 9).Draw(t, "doc."+f.Name+".present") < 4 {
			c.InputDoc[f.Name] = genFieldValue(t, f, "doc."+f.Name)
		}
	}
	// earlier runs of the same prepared workflow with other (valid) documents: which fields they
	// provide must not influence how the observed document is normalised
	for k, np := 0, rapid.IntRange(0, 3).Draw(t, "n_prior_docs"); k < np; k++ {
		d := map[string]any{}
		for _, f := range prog.Input {
			if f.Required || rapid.Bool().Draw(t, fmt.Sprintf("prior%d.%s.present", k, f.Name)) {
				d[f.Name] = genFieldValue(t, f, fmt.Sprintf("prior%d.%s", k, f.Name))
			}
		}
		c.PriorDocs = append(c.PriorDocs, d)
	}
	var paths []inPath
	inputPaths(prog.Input, "", nil, &paths)
	byType := map[string][]inPath{}
	for _, p := range paths {
		byType[p.typ] = append(byType[p.typ], p)
	}
	pick := func(typ, label string) *Expr {
		c := byType[typ]
		if len(c) == 0 {
			return nil
		}
		p := c[rapid.IntRange(0, len(c)-1).Draw(t, label)]
		return &Expr{K: "in", Field: p.field, Path: p.path}
	}
	ns := rapid.IntRange(1, 4).Draw(t, "n_steps")
	for i := 0; i < ns; i++ {
		id := stepName(i)
		in := &Val{K: "map"}
		in.Set("key", LitVal(StrLit(id)))
		for _, fld := range []struct{ name, typ string }{{"a", "int"}, {"opt1", "int"}, {"b", "string"}, {"c", "bool"}, {"f", "float"}, {"l", "list_int"}, {"any", "obj"}, {"any2", "map_int"}} {
			if rapid.IntRange(0, 9).Draw(t, id+"."+fld.name+"?") < 6 {
				if e := pick(fld.typ, id+"."+fld.name); e != nil {
					in.Set(fld.name, ExprVal(e))
				}
			}
		}
		prog.Steps = append(prog.Steps, &Step{ID: id, Kind: "plugin", Op: "op", Input: in})
	}
	out := &Output{ID: "success", Val: &Val{K: "map"}}
	for i, p := range paths {
		if rapid.IntRange(0, 9).Draw(t, fmt.Sprintf("out.%d?", i)) < 5 {
			out.Val.Set("e"+strconv.Itoa(i), ExprVal(&Expr{K: "in", Field: p.field, Path: p.path}))
		}
	}
	// the same references behind optional tags: a produced source (the input always is) must be present
	for i, p := range paths {
		switch rapid.IntRange(0, 9).Draw(t, fmt.Sprintf("out.%d.opt?", i)) {
		case 0, 1:
			out.Val.Set("w"+strconv.Itoa(i), &Val{K: "waitopt", Expr: &Expr{K: "in", Field: p.field, Path: p.path}})
		case 2:
			out.Val.Set("so"+strconv.Itoa(i), &Val{K: "softopt", Expr: &Expr{K: "in", Field: p.field, Path: p.path}})
		}
	}
	for _, s := range prog.Steps {
		out.Val.Set("r_"+s.ID, ExprVal(&Expr{K: "out", Step: s.ID, Stage: "outputs", Output: "success"}))
	}
	prog.Outputs = []*Output{out}

	// mutation
	if rapid.IntRange(0, 9).Draw(t, "invalid?") >= 5 {
		return c, nil
	}
	mut := &InputMutation{}
	var required []InField
	for _, f := range prog.Input {
		if f.Required {
			required = append(required, f)
		}
	}
	kinds := []string{"unknown-field", "wrong-type"}
	if len(prog.Input) >= 2 {
		// (an object with a single property accepts that property's value in its place, so only
		// schemas with several fields refuse every non-map document)
		kinds = append(kinds, "non-map-document")
	}
	if len(required) > 0 {
		kinds = append(kinds, "missing-required")
	}
	var bounded []InField
	for _, f := range prog.Input {
		if f.Min != nil {
			bounded = append(bounded, f)
		}
	}
	if len(bounded) > 0 {
		kinds = append(kinds, "constraint", "constraint")
	}
	var objs []InField
	for _, f := range prog.Input {
		if f.Type == "obj" {
			objs = append(objs, f)
		}
	}
	if len(objs) > 0 {
		kinds = append(kinds, "nested-wrong-type", "nested-unknown-field")
	}
	mut.Kind = rapid.SampledFrom(kinds).Draw(t, "mutation")
	switch mut.Kind {
	case "non-map-document":
		mut.Field = "(whole document)"
		if c.Extra == nil {
			c.Extra = map[string]any{}
		}
		c.Extra["raw_input"] = rapid.SampledFrom([]any{"junk", int64(5), []any{int64(1), int64(2)}, true, 2.5}).Draw(t, "mut.rawdoc")
	case "unknown-field":
		mut.Field = "no_such_field"
		c.InputDoc["no_such_field"] = int64(1)
	case "missing-required":
		f := required[rapid.IntRange(0, len(required)-1).Draw(t, "mut.field")]
		mut.Field = f.Name
		delete(c.InputDoc, f.Name)
	case "wrong-type":
		f := prog.Input[rapid.IntRange(0, len(prog.Input)-1).Draw(t, "mut.field")]
		mut.Field = f.Name
		switch f.Type {
		case "int", "float", "bool":
			c.InputDoc[f.Name] = map[string]any{"not": "a scalar"}
		case "string":
			c.InputDoc[f.Name] = []any{"a", "list"}
		case "pattern":
			c.InputDoc[f.Name] = "(unbalanced"
		case "enum":
			c.InputDoc[f.Name] = "zeta" // not one of the declared values
		case "list_int":
			c.InputDoc[f.Name] = []any{"x", "y"}
		case "map_int":
			c.InputDoc[f.Name] = map[string]any{"k": "not-a-number"}
		case "obj":
			// an object with a single property accepts that property's value in place of the
			// object (schema library feature), so only objects with several properties qualify
			if len(f.Fields) >= 2 {
				c.InputDoc[f.Name] = "a scalar"
			} else {
				mut.Kind, mut.Field = "unknown-field", "no_such_field"
				c.InputDoc["no_such_field"] = int64(1)
			}
		}
	case "constraint":
		f := bounded[rapid.IntRange(0, len(bounded)-1).Draw(t, "mut.field")]
		mut.Field = f.Name
		if f.Type == "int" {
			if rapid.Bool().Draw(t, "mut.above") {
				c.InputDoc[f.Name] = *f.Max + 1 + rapid.Int64Range(0, 5).Draw(t, "mut.by")
			} else {
				c.InputDoc[f.Name] = *f.Min - 1 - rapid.Int64Range(0, 5).Draw(t, "mut.by")
			}
		} else {
			s := ""
			for int64(len(s)) <= *f.Max {
				s += "y"
			}
			c.InputDoc[f.Name] = s
		}
	case "nested-wrong-type":
		f := objs[rapid.IntRange(0, len(objs)-1).Draw(t, "mut.field")]
		mut.Field = f.Name + "." + f.Fields[0].Name
		m, _ := c.InputDoc[f.Name].(map[string]any)
		switch f.Fields[0].Type {
		case "obj":
			if len(f.Fields[0].Fields) >= 2 {
				m[f.Fields[0].Name] = "scalar"
			} else {
				mut.Kind, mut.Field = "nested-unknown-field", f.Name+".no_such_field"
				m["no_such_field"] = int64(3)
			}
		case "list_int":
			m[f.Fields[0].Name] = map[string]any{"a": "b"}
		default:
			m[f.Fields[0].Name] = map[string]any{"not": "a scalar"}
		}
	case "nested-unknown-field":
		f := objs[rapid.IntRange(0, len(objs)-1).Draw(t, "mut.field")]
		mut.Field = f.Name + ".no_such_field"
		m, _ := c.InputDoc[f.Name].(map[string]any)
		m["no_such_field"] = int64(3)
	}
	return c, mut
}

// RenderInputYAML renders a document as YAML text (block style, quoted strings).
func RenderInputYAML(doc map[string]any) string {
	if len(doc) == 0 {
		return "{}\n"
	}
	w := &yw{}
	renderDoc(w, doc, 0)
	return w.b.String()
}

func renderDoc(w *yw, v any, indent int) {
	switch x := v.(type) {
	case map[string]any:
		for _, k := range sortedKeys(x) {
			if s, ok := docScalar(x[k]); ok {
				w.line(indent, q(k)+": "+s)
			} else {
				w.line(indent, q(k)+":")
				renderDoc(w, x[k], indent+1)
			}
		}
	case []any:
		for _, e := range x {
			if s, ok := docScalar(e); ok {
				w.line(indent, "- "+s)
			} else {
				w.line(indent, "-")
				renderDoc(w, e, indent+1)
			}
		}
	}
}

func docScalar(v any) (string, bool) {
	switch x := v.(type) {
	case string:
		return q(x), true
	case int64:
		return strconv.FormatInt(x, 10), true
	case float64:
		return strconv.FormatFloat(x, 'g', -1, 64), true
	case bool:
		return strconv.FormatBool(x), true
	case map[string]any:
		if len(x) == 0 {
			return "{}", true
		}
		if raw, ok := x["$raw"].(string); ok && len(x) == 1 {
			return raw, true // a plain (unquoted) scalar exactly as written
		}
	case []any:
		if len(x) == 0 {
			return "[]", true
		}
	}
	return "", false
}

// RawScalar marks a document value that is written as a plain, unquoted YAML scalar with exactly
// this text (e.g. 010, 1.10, true, ~ for a string field): the schema sees the text.
func RawScalar(text string) map[string]any { return map[string]any{"$raw": text} }

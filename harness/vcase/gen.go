//go:build verif

package vcase

import (
	"encoding/json"
	"fmt"

	"go.flow.arcalot.io/engine/internal/verif/vplug"
	"pgregory.net/rapid"
)

// Profile switches generator features on and off.
type Profile struct {
	Name     string
	MinSteps int
	MaxSteps int
	// Outcomes lists the admissible step outcomes (weights by repetition).
	Outcomes []string
	// DeployFail allows run-phase deployment failures; DeployOdd allows mismatch / bad writes.
	DeployFail bool
	DeployOdd  bool
	Foreach    bool
	Tags       bool // !oneof !ordisabled !wait-optional
	SoftOpt    bool // !soft-optional (timing dependent)
	StopIf     bool
	Enabled    bool
	WaitFor    bool
	DeployTag  bool
	Funcs      bool
	Faults     bool // expressions that may fault at run time (C07)
	EngineOuts bool // references to engine-generated stage outputs
	MultiOut   bool // several outputs that may be producible at once
	MaxOutputs int
	WideFanIn  int // if >0: probability (percent) of a wide fan-in shape with up to 40 producers
	MaxDelayMs int
	Gates      bool
	// MoreTwoRefs (0-5) raises the share of binary operations whose second operand is a reference too (40% + 10% each).
	MoreTwoRefs int
	// PreferProduced is the percentage of references biased towards outputs the scripted outcomes produce.
	PreferProduced int
	// ForeachFailures lets foreach items end in error / crash (C08, C13).
	ForeachFailures bool
	// NeverOK allows never-ending steps only where the reference says no output is pending on them.
	NeverOK bool
	// IntArithOnOutputs allows arithmetic / int functions over integers produced by plugins
	// (known finding K3 while open).
	IntArithOnOutputs bool
	// OutputsWaitAll makes every output wait (wait-optional) for all steps to be over.
	OutputsWaitAll bool
	// ObserveStageOutputs makes (half of the time) every output additionally carry, wait-optionally,
	// the terminal stage outputs of every step (foreach failed.error / outputs.success, plugin
	// crashed.error / deploy_failed.error) so that their data passes the output schema (C08).
	ObserveStageOutputs bool
	// TagHeavy places trees of tags in most `any` fields and outputs (C15).
	TagHeavy bool
	// RichInput adds generated input fields (bounds, defaults, nested objects, maps).
	RichInput bool
	// ClosedRefs allows references to closed.result and crashed.error (open finding K14 when
	// never-ending steps exist: both stay pending for a step that is stuck waiting for input).
	ClosedRefs bool
	// LiteralEnabled allows `enabled: true|false` literals (known finding K11).
	LiteralEnabled bool
	// StructFieldRefs allows references *into* crashed.error / deploy_failed.error (known finding K2).
	StructFieldRefs bool
}

// source describes something an expression can read.
type source struct {
	expr *Expr
	typ  string // int | string | bool | list_int | obj | any
	// needs: the node the value comes from, "" for workflow input
	fromPluginInt bool // integer that comes out of a plugin (CBOR uint64/int64)
	optional      bool // may be absent at run time
	engine        bool // engine-generated output
	structField   bool
}

type genCtx struct {
	t    *rapid.T
	p    Profile
	prog *Program
	srcs []source
	// per step info
	outcome map[string]string
	script  vplug.Script
	excl    map[string]int
	labels  map[string]bool
}

func (g *genCtx) label(l string) { g.labels[l] = true }

func (g *genCtx) pick(typ string, allowOptional bool) []source {
	var out []source
	for _, s := range g.srcs {
		if s.typ != typ {
			continue
		}
		if s.optional && !allowOptional {
			continue
		}
		out = append(out, s)
	}
	return out
}

func (g *genCtx) genLit(typ string, label string) *Lit {
	switch typ {
	case "int":
		return IntLit(rapid.Int64Range(-50, 1000).Draw(g.t, label))
	case "string":
		return StrLit(rapid.SampledFrom([]string{"", "x", "hello", "Zü", "a b", "007", "true"}).Draw(g.t, label))
	case "bool":
		return BoolLit(rapid.Bool().Draw(g.t, label))
	case "float":
		return FloatLit(float64(rapid.IntRange(-8, 8).Draw(g.t, label)) / 4)
	}
	panic("genLit " + typ)
}

// genExpr generates an expression of the given type, or nil if only a literal is possible.
func (g *genCtx) genExpr(typ string, depth int, label string) *Expr {
	cands := g.pick(typ, g.p.Faults)
	if len(cands) == 0 {
		return nil
	}
	choice := rapid.IntRange(0, 9).Draw(g.t, label+".kind")
	if g.p.Funcs && depth > 0 && choice >= 7 {
		switch typ {
		case "string":
			which := rapid.IntRange(0, 3).Draw(g.t, label+".fn")
			switch which {
			case 0:
				if a := g.genExpr("string", depth-1, label+".a"); a != nil {
					g.label("fn:toUpper")
					return &Expr{K: "call", Fn: "toUpper", Args: []*Expr{a}}
				}
			case 1:
				if a := g.genIntNoPlugin(depth-1, label+".a"); a != nil {
					g.label("fn:intToString")
					return &Expr{K: "call", Fn: "intToString", Args: []*Expr{a}}
				}
			case 2:
				a := g.genExpr("string", depth-1, label+".a")
				if a != nil {
					g.label("op:concat")
					b := &Expr{K: "lit", Lit: g.genLit("string", label+".b")}
					if rapid.IntRange(0, 9).Draw(g.t, label+".b.ref?") < 4+g.p.MoreTwoRefs {
						if x := g.genExpr("string", 0, label+".b.x"); x != nil {
							g.label("op:two-references")
							b = x
						}
					}
					return &Expr{K: "bin", Op: "+", Args: []*Expr{a, b}}
				}
			case 3:
				if a := g.genExpr("bool", depth-1, label+".a"); a != nil {
					g.label("fn:boolToString")
					return &Expr{K: "call", Fn: "boolToString", Args: []*Expr{a}}
				}
			}
		case "int":
			if g.p.Faults {
				switch rapid.IntRange(0, 3).Draw(g.t, label+".faultkind") {
				case 0:
					if a := g.genIntNoPlugin(depth-1, label+".a"); a != nil {
						op := rapid.SampledFrom([]string{"/", "%"}).Draw(g.t, label+".divop")
						g.label("fault:div")
						div := &Expr{K: "lit", Lit: IntLit(rapid.Int64Range(0, 2).Draw(g.t, label+".div"))}
						if rapid.IntRange(0, 2).Draw(g.t, label+".divin?") == 0 {
							// a divisor taken from the workflow input: whether the evaluation fails depends on the run
							for _, s := range g.srcs {
								if s.typ == "int" && s.expr.K == "in" && !s.optional && len(s.expr.Path) == 0 {
									div = s.expr
									g.label("fault:div-by-input")
									break
								}
							}
						}
						return &Expr{K: "bin", Op: op, Args: []*Expr{a, div}}
					}
				case 1:
					if a := g.genExpr("string", depth-1, label+".a"); a != nil {
						g.label("fault:stringToInt")
						return &Expr{K: "call", Fn: "stringToInt", Args: []*Expr{a}}
					}
				case 2:
					if a := g.genExpr("list_int", 0, label+".a"); a != nil && (a.K == "in" || g.p.IntArithOnOutputs) {
						g.label("fault:index")
						return &Expr{K: "idx", Args: []*Expr{a}, Index: rapid.Int64Range(-3, 3).Draw(g.t, label+".idx")}
					}
				}
			}
			if a := g.genIntNoPlugin(depth-1, label+".a"); a != nil {
				op := rapid.SampledFrom([]string{"+", "-", "*"}).Draw(g.t, label+".op")
				g.label("op:arith")
				b := &Expr{K: "lit", Lit: IntLit(rapid.Int64Range(0, 9).Draw(g.t, label+".b"))}
				if rapid.IntRange(0, 9).Draw(g.t, label+".b.ref?") < 4+g.p.MoreTwoRefs {
					if x := g.genIntNoPlugin(0, label+".b.x"); x != nil {
						g.label("op:two-references")
						b = x
					}
				}
				return &Expr{K: "bin", Op: op, Args: []*Expr{a, b}}
			}
		case "bool":
			if a := g.genIntNoPlugin(depth-1, label+".a"); a != nil {
				op := rapid.SampledFrom([]string{"<", ">", "==", "!="}).Draw(g.t, label+".op")
				g.label("op:compare")
				b := &Expr{K: "lit", Lit: IntLit(rapid.Int64Range(0, 20).Draw(g.t, label+".b"))}
				if rapid.IntRange(0, 9).Draw(g.t, label+".b.ref?") < 4+g.p.MoreTwoRefs {
					if x := g.genIntNoPlugin(0, label+".b.x"); x != nil {
						g.label("op:two-references")
						b = x
					}
				}
				return &Expr{K: "bin", Op: op, Args: []*Expr{a, b}}
			}
		}
	}
	if g.p.PreferProduced > 0 && rapid.IntRange(0, 99).Draw(g.t, label+".likely?") < g.p.PreferProduced {
		var lk, lkSteps []source
		for _, c := range cands {
			if g.likely(c) {
				lk = append(lk, c)
				if c.expr.K != "in" {
					lkSteps = append(lkSteps, c)
				}
			}
		}
		if len(lk) > 0 {
			cands = lk
		}
		if len(lkSteps) > 0 && rapid.IntRange(0, 3).Draw(g.t, label+".stepref?") > 0 {
			cands = lkSteps // dataflow between steps is what the profile wants to see
		}
	}
	s := cands[rapid.IntRange(0, len(cands)-1).Draw(g.t, label+".src")]
	if s.optional {
		g.label("ref:optional")
	}
	if s.engine {
		g.label("ref:engine-output")
	}
	return s.expr
}

// choose picks a source, preferring (with the profile's probability) sources that the scripted
// outcomes so far will produce.
func (g *genCtx) choose(cands []source, label string) source {
	if g.p.PreferProduced > 0 && rapid.IntRange(0, 99).Draw(g.t, label+".likely?") < g.p.PreferProduced {
		var lk []source
		for _, c := range cands {
			if g.likely(c) {
				lk = append(lk, c)
			}
		}
		if len(lk) > 0 {
			cands = lk
		}
	}
	return cands[rapid.IntRange(0, len(cands)-1).Draw(g.t, label)]
}

// likely reports whether the source will probably be produced given the scripted outcomes so far.
func (g *genCtx) likely(s source) bool {
	e := s.expr
	if e.K == "in" {
		return true
	}
	oc, ok := g.outcome[e.Step]
	if !ok {
		return false
	}
	switch e.Stage {
	case "outputs":
		if e.K == "stage" {
			return oc == "success" || oc == "error" || oc == "alt"
		}
		return oc == e.Output
	case "crashed":
		return oc == "crash" || oc == "bad_output"
	case "deploy_failed":
		return oc == "deployfail"
	case "enabling", "starting":
		return oc != "deployfail"
	}
	return false
}

// genIntNoPlugin returns an int expression that is safe for arithmetic (see Profile.IntArithOnOutputs).
func (g *genCtx) genIntNoPlugin(depth int, label string) *Expr {
	var cands []source
	for _, s := range g.srcs {
		if s.typ != "int" || (s.optional && !g.p.Faults) {
			continue
		}
		if s.fromPluginInt && !g.p.IntArithOnOutputs {
			g.excl["K3:int-arith-on-plugin-output"]++
			continue
		}
		cands = append(cands, s)
	}
	if len(cands) == 0 {
		return nil
	}
	return cands[rapid.IntRange(0, len(cands)-1).Draw(g.t, label+".isrc")].expr
}

func (g *genCtx) genTypedVal(typ string, label string) *Val {
	if rapid.IntRange(0, 9).Draw(g.t, label+".lit?") >= 3 {
		if e := g.genExpr(typ, 2, label); e != nil {
			return ExprVal(e)
		}
	}
	switch typ {
	case "list_int":
		n := rapid.IntRange(0, 3).Draw(g.t, label+".n")
		v := &Val{K: "list"}
		for i := 0; i < n; i++ {
			if e := g.genExpr("int", 1, fmt.Sprintf("%s.%d", label, i)); e != nil && rapid.Bool().Draw(g.t, label+".e?") {
				v.Vals = append(v.Vals, ExprVal(e))
			} else {
				v.Vals = append(v.Vals, LitVal(g.genLit("int", fmt.Sprintf("%s.%d", label, i))))
			}
		}
		return v
	case "obj", "any":
		return LitVal(g.genLit("string", label))
	}
	return LitVal(g.genLit(typ, label))
}

func (g *genCtx) addStepSources(s *Step, outcome string) {
	id := s.ID
	out := func(stage, output string, path ...string) *Expr {
		return &Expr{K: "out", Step: id, Stage: stage, Output: output, Path: path}
	}
	switch s.Kind {
	case "plugin", "":
		g.srcs = append(g.srcs,
			source{expr: out("outputs", "success", "v"), typ: "int", fromPluginInt: true},
			source{expr: out("outputs", "success", "s"), typ: "string"},
			source{expr: out("outputs", "success", "ok"), typ: "bool"},
			source{expr: out("outputs", "success", "l"), typ: "list_int"},
			source{expr: out("outputs", "success"), typ: "obj"},
			source{expr: out("outputs", "success", "opt"), typ: "int", fromPluginInt: true, optional: true},
			source{expr: out("outputs", "error", "msg"), typ: "string"},
			source{expr: out("outputs", "alt", "v"), typ: "int", fromPluginInt: true},
			source{expr: &Expr{K: "stage", Step: id, Stage: "outputs"}, typ: "stage"},
		)
		if g.p.EngineOuts {
			g.srcs = append(g.srcs,
				source{expr: out("enabling", "resolved", "enabled"), typ: "bool", engine: true},
				source{expr: out("disabled", "output", "message"), typ: "string", engine: true},
				source{expr: out("disabled", "output"), typ: "obj", engine: true},
				source{expr: out("starting", "started"), typ: "obj", engine: true},
				source{expr: &Expr{K: "stage", Step: id, Stage: "starting"}, typ: "stage", engine: true},
				source{expr: &Expr{K: "stage", Step: id, Stage: "enabling"}, typ: "stage", engine: true},
			)
			if g.p.ClosedRefs {
				g.srcs = append(g.srcs, source{expr: out("closed", "result"), typ: "obj", engine: true})
			} else {
				g.excl["K14:ref-to-closed-result"]++
			}
			if g.p.StructFieldRefs {
				g.srcs = append(g.srcs,
					source{expr: out("deploy_failed", "error", "error"), typ: "string", engine: true, structField: true},
					source{expr: out("deploy_failed", "error"), typ: "obj", engine: true, structField: true},
				)
				if g.p.ClosedRefs {
					g.srcs = append(g.srcs,
						source{expr: out("crashed", "error", "output"), typ: "string", engine: true, structField: true},
						source{expr: out("crashed", "error"), typ: "obj", engine: true, structField: true},
					)
				}
			} else {
				g.excl["K2:ref-to-struct-output"]++
			}
		}
	case "foreach":
		g.srcs = append(g.srcs,
			source{expr: out("outputs", "success"), typ: "obj"},
			source{expr: &Expr{K: "stage", Step: id, Stage: "outputs"}, typ: "stage"},
		)
		if g.p.EngineOuts {
			g.srcs = append(g.srcs, source{expr: out("enabling", "resolved", "enabled"), typ: "bool", engine: true})
			if g.p.ClosedRefs {
				g.srcs = append(g.srcs,
					source{expr: out("failed", "error"), typ: "obj", engine: true},
					source{expr: &Expr{K: "stage", Step: id, Stage: "failed"}, typ: "stage", engine: true},
				)
			} else {
				g.excl["K14:ref-to-closed-result"]++
			}
		}
	}
}

var stepNames = []string{"s0", "s1", "s2", "s3", "s4", "s5", "s6", "s7", "s8", "s9"}

func stepName(i int) string {
	if i < len(stepNames) {
		return stepNames[i]
	}
	return fmt.Sprintf("s%d", i)
}

// GenCase draws a run-type case for the profile.
func GenCase(t *rapid.T, p Profile, prop string) *Case {
	g := &genCtx{t: t, p: p, prog: &Program{}, outcome: map[string]string{}, excl: map[string]int{}, labels: map[string]bool{},
		script: vplug.Script{Steps: map[string]vplug.Behaviour{}, Deploys: map[string]vplug.DeployBehaviour{}}}
	c := &Case{Prop: prop, Profile: p.Name, Main: g.prog, Subs: map[string]*Program{}, InputDoc: map[string]any{}}

	// workflow input
	inputPool := []InField{
		{Name: "i", Type: "int", Required: true}, {Name: "s", Type: "string", Required: true},
		{Name: "b", Type: "bool", Required: true}, {Name: "l", Type: "list_int", Required: true},
		{Name: "j", Type: "int", Required: false, Default: IntLit(7)},
	}
	nIn := rapid.IntRange(0, len(inputPool)).Draw(t, "n_input")
	for _, f := range inputPool[:nIn] {
		g.prog.Input = append(g.prog.Input, f)
		switch f.Type {
		case "int":
			if f.Required || rapid.Bool().Draw(t, "in."+f.Name+".present") {
				c.InputDoc[f.Name] = rapid.Int64Range(-20, 200).Draw(t, "in."+f.Name)
			}
		case "string":
			c.InputDoc[f.Name] = rapid.SampledFrom([]string{"", "abc", "Q", "12"}).Draw(t, "in."+f.Name)
		case "bool":
			c.InputDoc[f.Name] = rapid.Bool().Draw(t, "in."+f.Name)
		case "list_int":
			n := rapid.IntRange(0, 3).Draw(t, "in."+f.Name+".n")
			l := make([]any, n)
			for k := range l {
				l[k] = rapid.Int64Range(0, 9).Draw(t, fmt.Sprintf("in.%s.%d", f.Name, k))
			}
			c.InputDoc[f.Name] = l
		}
		typ := f.Type
		g.srcs = append(g.srcs, source{expr: &Expr{K: "in", Field: f.Name}, typ: typ})
	}

	if p.RichInput {
		nx := rapid.IntRange(0, 2).Draw(t, "n_rich_input")
		for i := 0; i < nx; i++ {
			f := genInField(t, fmt.Sprintf("x%d", i), 2)
			g.prog.Input = append(g.prog.Input, f)
			if f.Required || rapid.Bool().Draw(t, "in."+f.Name+".present") {
				c.InputDoc[f.Name] = genFieldValue(t, f, "in."+f.Name)
			}
			var paths []inPath
			inputPaths([]InField{f}, "", nil, &paths)
			for _, ip := range paths {
				typ := ip.typ
				switch typ {
				case "map_int":
					typ = "map"
				case "float":
					continue
				}
				g.srcs = append(g.srcs, source{expr: &Expr{K: "in", Field: ip.field, Path: ip.path}, typ: typ})
				g.label("input:rich-" + ip.typ)
			}
		}
	}

	// shape
	n := rapid.IntRange(p.MinSteps, p.MaxSteps).Draw(t, "n_steps")
	wide := false
	if p.WideFanIn > 0 && rapid.IntRange(0, 99).Draw(t, "wide?") < p.WideFanIn {
		wide = true
		n = rapid.IntRange(2, 40).Draw(t, "n_wide")
		g.label("shape:wide")
	}
	for i := 0; i < n; i++ {
		g.genStep(c, i, wide)
	}

	// outputs
	maxOut := p.MaxOutputs
	if maxOut < 1 {
		maxOut = 1
	}
	nOut := rapid.IntRange(1, maxOut).Draw(t, "n_outputs")
	outIDs := []string{"success", "error", "other", "alt_out"}
	for k := 0; k < nOut; k++ {
		o := &Output{ID: outIDs[k], Val: &Val{K: "map"}}
		if wide && k == 0 {
			// every step feeds this output
			for _, s := range g.prog.Steps {
				o.Val.Set("f_"+s.ID, ExprVal(&Expr{K: "out", Step: s.ID, Stage: "outputs", Output: "success", Path: []string{"s"}}))
			}
		} else {
			nk := rapid.IntRange(1, 3).Draw(t, fmt.Sprintf("out.%d.n", k))
			for j := 0; j < nk; j++ {
				o.Val.Set(fmt.Sprintf("k%d", j), g.genOutputLeaf(fmt.Sprintf("out.%d.%d", k, j)))
			}
		}
		g.prog.Outputs = append(g.prog.Outputs, o)
	}
	if p.OutputsWaitAll {
		// every output additionally waits (wait-optional) for every step to be over, so that the run
		// does not end while consumers are still on their way
		for _, o := range g.prog.Outputs {
			if o.Val.K != "map" {
				continue
			}
			for _, s := range g.prog.Steps {
				o.Val.Set("w_"+s.ID, &Val{K: "waitopt", Expr: &Expr{K: "stage", Step: s.ID, Stage: "outputs"}})
			}
		}
	}
	if p.ObserveStageOutputs && rapid.Bool().Draw(t, "observe-stage-outputs?") {
		g.label("outputs-observe-all-terminal-stage-outputs")
		for _, o := range g.prog.Outputs {
			if o.Val.K != "map" {
				continue
			}
			for _, s := range g.prog.Steps {
				add := func(name, stage, output string) {
					o.Val.Set(name+"_"+s.ID, &Val{K: "waitopt", Expr: &Expr{K: "out", Step: s.ID, Stage: stage, Output: output}})
				}
				if s.Kind == "foreach" {
					add("ff", "failed", "error")
					add("fs", "outputs", "success")
				} else {
					add("pc", "crashed", "error")
					add("pd", "deploy_failed", "error")
					add("ps", "outputs", "success")
				}
			}
		}
	}
	c.Script = g.script
	for l := range g.labels {
		c.Labels = append(c.Labels, l)
	}
	if len(g.excl) > 0 {
		c.Extra = map[string]any{"excluded": g.excl}
	}
	return c
}

func (g *genCtx) genOutputLeaf(label string) *Val {
	t := g.t
	kinds := []string{"int", "string", "bool", "list_int", "obj", "map"}
	if g.p.TagHeavy && len(g.pick("obj", false)) > 0 && rapid.IntRange(0, 9).Draw(t, label+".tagtree?") < 6 {
		return g.genTagTree(label, 2)
	}
	if g.p.Tags && rapid.IntRange(0, 9).Draw(t, label+".tag?") < 3 {
		if v := g.genTag(label, false); v != nil {
			return v
		}
	}
	if g.p.Tags && rapid.IntRange(0, 11).Draw(t, label+".objlist?") == 0 {
		// a list literal of object literals that differ only in an optional field (the wider one
		// first: the item type is taken from the first item, the others must fit into it)
		if objs := g.pick("obj", false); len(objs) > 0 {
			opt := &Val{K: "waitopt", Expr: g.choose(objs, label+".objlist.src").expr}
			wide := MapVal([]string{"a", "o"}, []*Val{LitVal(IntLit(rapid.Int64Range(0, 9).Draw(t, label+".objlist.a0"))), opt})
			narrow := MapVal([]string{"a"}, []*Val{LitVal(IntLit(rapid.Int64Range(0, 9).Draw(t, label+".objlist.a1")))})
			g.label("output:list-of-objects-differing-in-an-optional-field")
			return &Val{K: "list", Vals: []*Val{wide, narrow}}
		}
	}
	if rapid.IntRange(0, 9).Draw(t, label+".stage?") == 0 {
		if c := g.pick("stage", false); len(c) > 0 {
			g.label("ref:whole-stage")
			return ExprVal(g.choose(c, label+".stsrc").expr)
		}
	}
	typ := rapid.SampledFrom(kinds).Draw(t, label+".type")
	if e := g.genExpr(typ, 2, label); e != nil {
		return ExprVal(e)
	}
	return LitVal(g.genLit("string", label))
}

// genTagTree generates a map / list structure with several tags (nested one-ofs included).
func (g *genCtx) genTagTree(label string, depth int) *Val {
	t := g.t
	n := rapid.IntRange(1, 3).Draw(t, label+".n")
	if rapid.IntRange(0, 3).Draw(t, label+".list?") == 0 {
		v := &Val{K: "list"}
		// list items must have one type: the same object (holding a tag) is repeated
		item := &Val{K: "map"}
		if tv := g.genTag(label+".item", true); tv != nil {
			item.Set("t", tv)
		} else {
			item.Set("t", LitVal(StrLit("x")))
		}
		for i := 0; i < n; i++ {
			b, _ := json.Marshal(item)
			var cp Val
			_ = json.Unmarshal(b, &cp)
			v.Vals = append(v.Vals, &cp)
		}
		g.label("tagtree:list")
		return v
	}
	v := &Val{K: "map"}
	for i := 0; i < n; i++ {
		key := fmt.Sprintf("t%d", i)
		lbl := fmt.Sprintf("%s.%s", label, key)
		switch {
		case depth > 0 && rapid.IntRange(0, 3).Draw(t, lbl+".nest?") == 0:
			v.Set(key, g.genTagTree(lbl, depth-1))
		case depth > 0 && rapid.IntRange(0, 4).Draw(t, lbl+".nestedoneof?") == 0:
			// a one-of whose option is an object that itself holds a tag
			inner := g.genTag(lbl+".inner", true)
			if inner == nil {
				inner = LitVal(StrLit("x"))
			}
			v.Set(key, &Val{K: "oneof", Disc: "kind", Keys: []string{"only"}, Vals: []*Val{MapVal([]string{"inner", "c"}, []*Val{inner, LitVal(StrLit("const"))})}})
			g.label("tag:nested-oneof")
		default:
			if tv := g.genTag(lbl, true); tv != nil {
				v.Set(key, tv)
			} else {
				v.Set(key, LitVal(StrLit("x")))
			}
		}
	}
	if n >= 2 {
		g.label("tagtree:several-tags-in-one-object")
	}
	return v
}

// genTag generates a tagged value. inStep tells whether it is destined for a step's `any` field.
func (g *genCtx) genTag(label string, inStep bool) *Val {
	t := g.t
	objs := g.pick("obj", false)
	if len(objs) == 0 {
		return nil
	}
	kinds := []string{"waitopt", "ordisabled", "oneof"}
	if g.p.SoftOpt {
		kinds = append(kinds, "softopt")
	}
	kind := rapid.SampledFrom(kinds).Draw(t, label+".tagkind")
	src := g.choose(objs, label+".tagsrc")
	g.label("tag:" + kind)
	switch kind {
	case "waitopt", "softopt":
		if g.p.Faults && rapid.IntRange(0, 9).Draw(t, label+".optexpr?") < 4 {
			// a computed expression (possibly one whose evaluation fails) under the optional tag
			if rapid.IntRange(0, 2).Draw(t, label+".optdiv?") == 0 {
				// optional tags are resolved on a code path of their own: a division whose divisor may be zero
				if a := g.genIntNoPlugin(1, label+".optdiv.a"); a != nil {
					op := rapid.SampledFrom([]string{"/", "%"}).Draw(t, label+".optdiv.op")
					g.label("tag:" + kind + "-over-division")
					return &Val{K: kind, Expr: &Expr{K: "bin", Op: op, Args: []*Expr{a, {K: "lit", Lit: IntLit(rapid.Int64Range(0, 1).Draw(t, label+".optdiv.d"))}}}}
				}
			}
			typ := rapid.SampledFrom([]string{"int", "int", "string", "bool"}).Draw(t, label+".opttyp")
			if e := g.genExpr(typ, 2, label+".optexpr"); e != nil && e.K != "in" && e.K != "lit" {
				g.label("tag:" + kind + "-over-computed-expression")
				return &Val{K: kind, Expr: e}
			}
		}
		return &Val{K: kind, Expr: src.expr}
	case "ordisabled":
		// needs a plugin step output path
		var c []source
		for _, s := range objs {
			if s.expr.K == "out" && s.expr.Stage == "outputs" {
				c = append(c, s)
			}
		}
		if len(c) == 0 {
			return nil
		}
		return &Val{K: "ordisabled", Expr: c[rapid.IntRange(0, len(c)-1).Draw(t, label+".odsrc")].expr}
	case "oneof":
		nopt := rapid.IntRange(1, 3).Draw(t, label+".nopt")
		v := &Val{K: "oneof", Disc: "d"}
		for i := 0; i < nopt; i++ {
			s := objs[rapid.IntRange(0, len(objs)-1).Draw(t, fmt.Sprintf("%s.opt%d", label, i))]
			// option ids are free-form keys: some contain dots, like the node path separator
			v.Keys = append(v.Keys, fmt.Sprintf(rapid.SampledFrom([]string{"o%d", "o%d", "v%d.0", "opt.%d", "x.y.z%d"}).Draw(t, fmt.Sprintf("%s.optkey%d", label, i)), i))
			v.Vals = append(v.Vals, ExprVal(s.expr))
		}
		return v
	}
	return nil
}

func (g *genCtx) genStep(c *Case, i int, wide bool) {
	t := g.t
	p := g.p
	id := stepName(i)
	lbl := "step." + id
	s := &Step{ID: id, Kind: "plugin", Op: "op"}
	if rapid.IntRange(0, 9).Draw(t, lbl+".nc?") == 0 {
		s.Op = "op_nc"
	}
	if p.Foreach && !wide && rapid.IntRange(0, 9).Draw(t, lbl+".foreach?") < 2 {
		g.genForeach(c, s, lbl)
		g.outcome[id] = "success"
		g.prog.Steps = append(g.prog.Steps, s)
		g.addStepSources(s, "")
		return
	}
	in := &Val{K: "map"}
	in.Set("key", LitVal(StrLit(id)))
	if wide {
		// independent producers: no references to other steps
		if rapid.Bool().Draw(t, lbl+".a?") {
			in.Set("a", LitVal(g.genLit("int", lbl+".a")))
		}
	} else {
		for _, f := range []struct{ name, typ string }{{"a", "int"}, {"b", "string"}, {"c", "bool"}, {"l", "list_int"}, {"opt1", "int"}} {
			if rapid.IntRange(0, 9).Draw(t, lbl+"."+f.name+"?") < 5 {
				in.Set(f.name, g.genTypedVal(f.typ, lbl+"."+f.name))
			}
		}
		if p.TagHeavy && len(g.pick("obj", false)) > 0 && rapid.IntRange(0, 9).Draw(t, lbl+".tagtree?") < 7 {
			in.Set("any", g.genTagTree(lbl+".any", 2))
			if rapid.Bool().Draw(t, lbl+".tagtree2?") {
				in.Set("any2", g.genTagTree(lbl+".any2", 1))
			}
		} else if rapid.IntRange(0, 9).Draw(t, lbl+".any?") < 3 {
			if p.Tags && rapid.Bool().Draw(t, lbl+".anytag?") {
				if v := g.genTag(lbl+".any", true); v != nil {
					in.Set("any", v)
				}
			}
			if in.Get("any") == nil {
				objs := append(g.pick("obj", false), g.pick("map", false)...)
				if len(objs) > 0 {
					in.Set("any", ExprVal(g.choose(objs, lbl+".anysrc").expr))
				}
			}
		}
		if p.WaitFor && rapid.IntRange(0, 9).Draw(t, lbl+".wait?") < 3 {
			var c []source
			c = append(c, g.pick("stage", false)...)
			c = append(c, g.pick("obj", false)...)
			if len(c) > 0 {
				s.WaitFor = ExprVal(g.choose(c, lbl+".waitsrc").expr)
				g.label("field:wait_for")
			}
		}
		if p.Enabled && rapid.IntRange(0, 9).Draw(t, lbl+".enabled?") < 3 {
			s.Enabled = g.genTypedVal("bool", lbl+".enabled")
			if s.Enabled.K == "lit" && !p.LiteralEnabled {
				// known finding K11: a literal `enabled: true` disables the step
				g.excl["K11:literal-enabled"]++
				if e := g.genExpr("bool", 1, lbl+".enabled.e"); e != nil {
					s.Enabled = ExprVal(e)
				} else {
					s.Enabled = nil
				}
			}
			if s.Enabled != nil && s.Enabled.K == "lit" && s.Enabled.Lit.T == "bool" && rapid.Bool().Draw(t, lbl+".enabled.spelling?") {
				// the bool schema accepts these spellings (case-insensitively) for a literal
				words := []string{"no", "N", "off", "fAlSe", "disable", "DISABLED", "0"}
				if s.Enabled.Lit.B {
					words = []string{"yes", "Y", "on", "TRUE", "enable", "Enabled", "1"}
				}
				s.Enabled = &Val{K: "rawscalar", Disc: rapid.SampledFrom(words).Draw(t, lbl+".enabled.word")}
				g.label("field:enabled-literal-alternative-spelling")
			}
			if s.Enabled != nil {
				g.label("field:enabled")
			}
		}
		if p.StopIf && s.Op == "op" && rapid.IntRange(0, 9).Draw(t, lbl+".stopif?") < 2 {
			var c []source
			c = append(c, g.pick("stage", false)...)
			c = append(c, g.pick("obj", false)...)
			if len(c) > 0 {
				s.StopIf = ExprVal(c[rapid.IntRange(0, len(c)-1).Draw(t, lbl+".stopsrc")].expr)
				g.label("field:stop_if")
			}
		}
		if p.DeployTag && rapid.IntRange(0, 9).Draw(t, lbl+".deploy?") < 2 {
			s.DeployTag = g.genTypedVal("string", lbl+".deploytag")
			g.label("field:deploy")
		}
	}
	s.Input = in
	// behaviour
	outcome := rapid.SampledFrom(p.Outcomes).Draw(t, lbl+".outcome")
	b := vplug.Behaviour{Outcome: outcome}
	if p.MaxDelayMs > 0 {
		b.DelayMs = rapid.IntRange(0, p.MaxDelayMs).Draw(t, lbl+".delay")
	}
	if outcome == "never" {
		b.OnCancel = "alt"
	}
	g.script.Steps[id] = b
	if outcome != "success" {
		g.label("outcome:" + outcome)
	}
	if p.DeployFail && rapid.IntRange(0, 19).Draw(t, lbl+".depfail?") == 0 {
		g.script.Deploys["vp://"+id] = vplug.DeployBehaviour{FailRun: true}
		g.label("deploy:fail")
	} else if p.DeployOdd && rapid.IntRange(0, 29).Draw(t, lbl+".depodd?") == 0 {
		if rapid.Bool().Draw(t, lbl+".mismatch?") {
			g.script.Deploys["vp://"+id] = vplug.DeployBehaviour{MismatchRun: true}
			g.label("deploy:mismatch")
		} else {
			g.script.Deploys["vp://"+id] = vplug.DeployBehaviour{BadWritesRun: true}
			g.label("deploy:badwrites")
		}
	}
	g.outcome[id] = outcome
	if d := g.script.Deploys["vp://"+id]; d.FailRun {
		g.outcome[id] = "deployfail"
	} else if d.MismatchRun || d.BadWritesRun {
		g.outcome[id] = "crash"
	}
	g.prog.Steps = append(g.prog.Steps, s)
	g.addStepSources(s, outcome)
}

// genForeach turns s into a foreach step over a generated sub-workflow.
func (g *genCtx) genForeach(c *Case, s *Step, lbl string) {
	t := g.t
	s.Kind = "foreach"
	s.Op = ""
	s.Workflow = "sub_" + s.ID + ".yaml"
	g.label("kind:foreach")
	// sub-workflow: input {k: string, n: int}; one plugin step keyed by the item; success output
	sub := &Program{
		Input: []InField{{Name: "k", Type: "string", Required: true}, {Name: "n", Type: "int", Required: true}},
		Steps: []*Step{{ID: "w", Kind: "plugin", Op: "op", Src: "vp://" + s.ID + "_w", Input: MapVal(
			[]string{"key", "a"},
			[]*Val{ExprVal(&Expr{K: "in", Field: "k"}), ExprVal(&Expr{K: "in", Field: "n"})})}},
		Outputs: []*Output{{ID: "success", Val: MapVal([]string{"r"}, []*Val{ExprVal(&Expr{K: "out", Step: "w", Stage: "outputs", Output: "success"})})}},
	}
	// sub-workflows of sibling loops differ in the shape of their success output
	switch rapid.IntRange(0, 2).Draw(t, lbl+".sub-shape") {
	case 1:
		sub.Outputs[0].Val = MapVal([]string{"r"}, []*Val{ExprVal(&Expr{K: "out", Step: "w", Stage: "outputs", Output: "success", Path: []string{"v"}})})
		g.label("foreach:sub-output-shape-int")
	case 2:
		sub.Outputs[0].Val = MapVal([]string{"r", "extra"}, []*Val{ExprVal(&Expr{K: "out", Step: "w", Stage: "outputs", Output: "success"}),
			ExprVal(&Expr{K: "out", Step: "w", Stage: "outputs", Output: "success", Path: []string{"s"}})})
		g.label("foreach:sub-output-shape-extra-field")
	}
	if g.p.ForeachFailures && rapid.Bool().Draw(t, lbl+".sub-error-output?") {
		// the sub-workflow declares a second, non-success output: an item that ends in it failed
		sub.Outputs = append(sub.Outputs, &Output{ID: "error", Val: MapVal([]string{"why"}, []*Val{ExprVal(&Expr{K: "out", Step: "w", Stage: "outputs", Output: "error", Path: []string{"msg"}})})})
		g.label("foreach:sub-workflow-with-error-output")
	}
	c.Subs[s.Workflow] = sub
	n := rapid.IntRange(0, 5).Draw(t, lbl+".items")
	items := &Val{K: "list"}
	for i := 0; i < n; i++ {
		key := fmt.Sprintf("%s#%d", s.ID, i)
		nv := LitVal(IntLit(rapid.Int64Range(0, 30).Draw(t, fmt.Sprintf("%s.item%d.n", lbl, i))))
		if e := g.genExpr("int", 0, fmt.Sprintf("%s.item%d.ne", lbl, i)); e != nil && rapid.IntRange(0, 3).Draw(t, fmt.Sprintf("%s.item%d.e?", lbl, i)) == 0 {
			nv = ExprVal(e)
		}
		items.Vals = append(items.Vals, MapVal([]string{"k", "n"}, []*Val{LitVal(StrLit(key)), nv}))
		b := vplug.Behaviour{Outcome: "success"}
		if g.p.ForeachFailures && rapid.IntRange(0, 5).Draw(t, fmt.Sprintf("%s.item%d.fail?", lbl, i)) == 0 {
			b.Outcome = rapid.SampledFrom([]string{"crash", "bad_output", "error", "error", "alt"}).Draw(t, fmt.Sprintf("%s.item%d.outcome", lbl, i))
			g.label("foreach-item:" + b.Outcome)
		}
		if g.p.MaxDelayMs > 0 {
			b.DelayMs = rapid.IntRange(0, g.p.MaxDelayMs).Draw(t, fmt.Sprintf("%s.item%d.delay", lbl, i))
		}
		g.script.Steps[key] = b
	}
	s.Items = items
	if rapid.Bool().Draw(t, lbl+".par?") {
		s.Parallelism = LitVal(IntLit(rapid.Int64Range(1, 4).Draw(t, lbl+".par")))
	}
}

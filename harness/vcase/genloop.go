//go:build verif

package vcase

import (
	"fmt"

	"go.flow.arcalot.io/engine/internal/verif/vplug"
	"pgregory.net/rapid"
)

// GenLoopCase draws a C13 case: one foreach step (possibly nested) over a generated item list.
func GenLoopCase(t *rapid.T) *Case {
	prog := &Program{Input: []InField{{Name: "p", Type: "int", Required: true}, {Name: "base", Type: "int", Required: true}}}
	c := &Case{Prop: "C13", Profile: "loop", Main: prog, Subs: map[string]*Program{}, InputDoc: map[string]any{},
		Script: vplug.Script{Steps: map[string]vplug.Behaviour{}, Deploys: map[string]vplug.DeployBehaviour{}}}
	par := rapid.Int64Range(1, 8).Draw(t, "parallelism")
	c.InputDoc["p"] = par
	c.InputDoc["base"] = rapid.Int64Range(0, 50).Draw(t, "base")
	subKind := rapid.SampledFrom([]string{"single", "chain", "two-outputs", "nested"}).Draw(t, "sub")
	c.Labels = append(c.Labels, "sub:"+subKind)
	itemIn := []InField{{Name: "k", Type: "string", Required: true}, {Name: "n", Type: "int", Required: true}}
	inK, inN := ExprVal(&Expr{K: "in", Field: "k"}), ExprVal(&Expr{K: "in", Field: "n"})
	w := &Step{ID: "w", Kind: "plugin", Op: "op", Src: "vp://loop_w", Input: MapVal([]string{"key", "a"}, []*Val{inK, inN})}
	wOut := func(path ...string) *Val {
		return ExprVal(&Expr{K: "out", Step: "w", Stage: "outputs", Output: "success", Path: path})
	}
	var sub *Program
	switch subKind {
	case "single":
		sub = &Program{Input: itemIn, Steps: []*Step{w}, Outputs: []*Output{{ID: "success", Val: MapVal([]string{"r"}, []*Val{wOut()})}}}
	case "chain":
		w2 := &Step{ID: "w2", Kind: "plugin", Op: "op", Src: "vp://loop_w2", Input: MapVal([]string{"key", "a", "b"},
			[]*Val{ExprVal(&Expr{K: "bin", Op: "+", Args: []*Expr{{K: "in", Field: "k"}, {K: "lit", Lit: StrLit("/2")}}}), wOut("v"), wOut("s")})}
		sub = &Program{Input: itemIn, Steps: []*Step{w, w2}, Outputs: []*Output{{ID: "success", Val: MapVal([]string{"r", "first"},
			[]*Val{ExprVal(&Expr{K: "out", Step: "w2", Stage: "outputs", Output: "success"}), wOut("v")})}}}
	case "two-outputs":
		sub = &Program{Input: itemIn, Steps: []*Step{w}, Outputs: []*Output{
			{ID: "success", Val: MapVal([]string{"r"}, []*Val{wOut("v")})},
			{ID: "error", Val: MapVal([]string{"why"}, []*Val{ExprVal(&Expr{K: "out", Step: "w", Stage: "outputs", Output: "error", Path: []string{"msg"}})})},
		}}
	case "nested":
		inner := &Program{Input: itemIn, Steps: []*Step{w}, Outputs: []*Output{{ID: "success", Val: MapVal([]string{"r"}, []*Val{wOut("v")})}}}
		c.Subs["inner.yaml"] = inner
		// the outer item carries the list of inner items
		outerIn := []InField{{Name: "k", Type: "string", Required: true}, {Name: "inner", Type: "list_obj", Required: true}}
		_ = outerIn
		sub = &Program{Input: []InField{{Name: "k", Type: "string", Required: true}, {Name: "n", Type: "int", Required: true}},
			Steps: []*Step{{ID: "in", Kind: "foreach", Workflow: "inner.yaml", Parallelism: LitVal(IntLit(2)),
				Items: &Val{K: "list", Vals: []*Val{
					MapVal([]string{"k", "n"}, []*Val{ExprVal(&Expr{K: "bin", Op: "+", Args: []*Expr{{K: "in", Field: "k"}, {K: "lit", Lit: StrLit(".in#a")}}}), inN}),
					MapVal([]string{"k", "n"}, []*Val{ExprVal(&Expr{K: "bin", Op: "+", Args: []*Expr{{K: "in", Field: "k"}, {K: "lit", Lit: StrLit(".in#b")}}}), LitVal(IntLit(1))}),
				}}}},
			Outputs: []*Output{{ID: "success", Val: MapVal([]string{"r"}, []*Val{ExprVal(&Expr{K: "out", Step: "in", Stage: "outputs", Output: "success"})})}}}
	}
	c.Subs["sub.yaml"] = sub

	n := 0
	switch rapid.IntRange(0, 9).Draw(t, "n.class") {
	case 0:
		n = 0
	case 1:
		n = rapid.IntRange(20, 40).Draw(t, "n.big")
	default:
		n = rapid.IntRange(1, 12).Draw(t, "n")
	}
	items := &Val{K: "list"}
	forceOverlap := subKind != "nested" && n > 0 && rapid.Bool().Draw(t, "force-overlap")
	m := int(par)
	if n < m {
		m = n
	}
	failing := 0
	for i := 0; i < n; i++ {
		key := fmt.Sprintf("loop#%d", i)
		nv := LitVal(IntLit(rapid.Int64Range(0, 30).Draw(t, fmt.Sprintf("item%d.n", i))))
		if rapid.IntRange(0, 4).Draw(t, fmt.Sprintf("item%d.e?", i)) == 0 {
			nv = ExprVal(&Expr{K: "in", Field: "base"})
		}
		items.Vals = append(items.Vals, MapVal([]string{"k", "n"}, []*Val{LitVal(StrLit(key)), nv}))
		outcomes := []string{"success", "success", "success", "success", "crash", "bad_output"}
		if subKind == "two-outputs" {
			outcomes = append(outcomes, "error", "error")
		}
		b := vplug.Behaviour{Outcome: rapid.SampledFrom(outcomes).Draw(t, fmt.Sprintf("item%d.outcome", i)),
			DelayMs: rapid.IntRange(0, 20).Draw(t, fmt.Sprintf("item%d.delay", i))}
		if b.Outcome != "success" {
			failing++
		}
		if forceOverlap && m >= 2 {
			b.Gate = fmt.Sprintf("conc:loop#%d", m)
			b.GateTimeoutMs = 1500
		}
		keys := []string{key}
		if subKind == "nested" {
			keys = []string{key + ".in#a", key + ".in#b"}
		}
		for _, k := range keys {
			c.Script.Steps[k] = b
		}
		if subKind == "chain" {
			c.Script.Steps[key+"/2"] = vplug.Behaviour{Outcome: "success", DelayMs: rapid.IntRange(0, 10).Draw(t, fmt.Sprintf("item%d.delay2", i))}
		}
	}
	loop := &Step{ID: "loop", Kind: "foreach", Workflow: "sub.yaml", Items: items}
	switch rapid.IntRange(0, 2).Draw(t, "par.kind") {
	case 0:
		loop.Parallelism = LitVal(IntLit(par))
	case 1:
		loop.Parallelism = ExprVal(&Expr{K: "in", Field: "p"})
	case 2:
		par = 1 // default
		c.InputDoc["p"] = int64(1)
	}
	prog.Steps = []*Step{loop}
	prog.Outputs = []*Output{
		{ID: "success", Val: MapVal([]string{"r"}, []*Val{ExprVal(&Expr{K: "out", Step: "loop", Stage: "outputs", Output: "success"})})},
		{ID: "failed", Val: MapVal([]string{"e"}, []*Val{ExprVal(&Expr{K: "out", Step: "loop", Stage: "failed", Output: "error"})})},
	}
	c.Extra = map[string]any{"parallelism": par, "n": n, "force_overlap": forceOverlap && m >= 2 && loop.Parallelism != nil, "failing": failing}
	if forceOverlap && loop.Parallelism == nil {
		// default parallelism 1: no overlap can be forced; remove the gates
		for k, b := range c.Script.Steps {
			b.Gate, b.GateTimeoutMs = "", 0
			c.Script.Steps[k] = b
		}
	}
	return c
}

//go:build verif

package vcase

import (
	"fmt"
	"strings"

	"gopkg.in/yaml.v3"
)

// YAMLShapes are the replacement shapes of the structural corruption enumeration (C11).
var YAMLShapes = []string{
	"x", "''", "5", "~", "true", "{}", "{a: b}", "{[a]: b}", "{{a: b}: c}", "{? [a, b] : c, d: e}", "[]", "[x]", "[[x]]", "[{a: b}]",
	"[&anc x, *anc]", "{<<: {a: b}, c: d}", "{a: b, a: c}",
	"!expr '$'", "!expr '$.steps'", "!expr '$.steps.a'", "!expr '$.input'", "!expr '$.'", "!expr '('", "!expr ''", "!expr {a: b}", "!expr [x]",
	"!expr '$.input.nosuch'", "!expr 'f('", "!expr '1 +'", "!expr '$.steps.a.outputs'", "!expr '$[0]'", "!expr '\"unterminated'",
	"!oneof x", "!oneof {}", "!oneof {discriminator: d}", "!oneof {one_of: {a: b}}", "!oneof {discriminator: {a: b}, one_of: {a: {}}}",
	"!oneof {discriminator: d, one_of: x}", "!oneof {discriminator: d, one_of: {}}", "!oneof {discriminator: '', one_of: {a: {}}}",
	"!oneof {discriminator: d, one_of: {a: !expr '$.input'}}", "!oneof {discriminator: d, one_of: {[a]: b}}", "!oneof [x]",
	"!ordisabled x", "!ordisabled '$.steps.a'", "!ordisabled '$.steps.a.outputs'", "!ordisabled {a: b}", "!ordisabled ''",
	"!wait-optional '$'", "!wait-optional x", "!wait-optional {a: b}", "!soft-optional [x]", "!soft-optional '$.input'",
	"!!binary aGVsbG8=", "!!float .nan", "!!int 0x10", "!unknowntag x", "!!set {a, b}", "2001-12-14t21:59:43.10-05:00",
	"|\n  multi\n  line\n", "\"\\u0000\"",
	// anchors and aliases, inserted textually (an anchored collection that contains itself, mutual
	// containment, fan-out of aliases, an undefined alias)
	"TEXT:&va [*va]", "TEXT:&va {k: *va}", "TEXT:&va [[x, *va]]", "TEXT:&va [&vb [*va], *vb]", "TEXT:&va {k: {j: [*va]}}",
	"TEXT:[&va [x, x], &vb [*va, *va], &vc [*vb, *vb], &vd [*vc, *vc]]", "TEXT:*vundefined", "TEXT:[&va {a: b}, *va]",
}

type yamlPos struct {
	parent *yaml.Node
	index  int // index in parent.Content
	isKey  bool
}

func collectPositions(n *yaml.Node, out *[]yamlPos) {
	for i, c := range n.Content {
		isKey := n.Kind == yaml.MappingNode && i%2 == 0
		*out = append(*out, yamlPos{parent: n, index: i, isKey: isKey})
		collectPositions(c, out)
	}
}

// YAMLPositions counts the node positions of a document (keys and values).
func YAMLPositions(doc string) int {
	var root yaml.Node
	if err := yaml.Unmarshal([]byte(doc), &root); err != nil {
		return 0
	}
	var pos []yamlPos
	collectPositions(&root, &pos)
	return len(pos)
}

// CorruptYAML applies one structural corruption. op: 0..len(YAMLShapes)-1 = replace by shape,
// len(YAMLShapes) = delete the key/value pair or list item, len+1 = duplicate it,
// len+2 = wrap the node in a 200-deep sequence nest.
func CorruptYAML(doc string, position int, op int) (string, string, bool) {
	var root yaml.Node
	if err := yaml.Unmarshal([]byte(doc), &root); err != nil {
		return "", "", false
	}
	var pos []yamlPos
	collectPositions(&root, &pos)
	if len(pos) == 0 {
		return "", "", false
	}
	p := pos[position%len(pos)]
	target := p.parent.Content[p.index]
	where := fmt.Sprintf("line %d col %d (%s)", target.Line, target.Column, short(target.Value, 20))
	desc := ""
	switch {
	case op < len(YAMLShapes) && strings.HasPrefix(YAMLShapes[op], "TEXT:"):
		const placeholder = "VERIFSHAPEPLACEHOLDER"
		p.parent.Content[p.index] = &yaml.Node{Kind: yaml.ScalarNode, Tag: "!!str", Value: placeholder}
		out, err := yaml.Marshal(&root)
		if err != nil || strings.Count(string(out), placeholder) != 1 {
			return "", "", false
		}
		shape := strings.TrimPrefix(YAMLShapes[op], "TEXT:")
		kind := "value"
		if p.isKey {
			kind = "key"
		}
		return strings.Replace(string(out), placeholder, shape, 1), fmt.Sprintf("%s at %s replaced by the text %q", kind, where, shape), true
	case op < len(YAMLShapes):
		var sn yaml.Node
		if err := yaml.Unmarshal([]byte(YAMLShapes[op]), &sn); err != nil || len(sn.Content) == 0 {
			return "", "", false
		}
		p.parent.Content[p.index] = sn.Content[0]
		kind := "value"
		if p.isKey {
			kind = "key"
		}
		desc = fmt.Sprintf("%s at %s replaced by %q", kind, where, YAMLShapes[op])
	case op == len(YAMLShapes):
		if p.parent.Kind == yaml.MappingNode {
			k := p.index - p.index%2
			p.parent.Content = append(p.parent.Content[:k:k], p.parent.Content[k+2:]...)
		} else if p.parent.Kind == yaml.SequenceNode {
			p.parent.Content = append(p.parent.Content[:p.index:p.index], p.parent.Content[p.index+1:]...)
		} else {
			return "", "", false
		}
		desc = "entry at " + where + " deleted"
	case op == len(YAMLShapes)+1:
		if p.parent.Kind == yaml.MappingNode {
			k := p.index - p.index%2
			p.parent.Content = append(p.parent.Content, p.parent.Content[k], p.parent.Content[k+1])
		} else if p.parent.Kind == yaml.SequenceNode {
			p.parent.Content = append(p.parent.Content, p.parent.Content[p.index])
		} else {
			return "", "", false
		}
		desc = "entry at " + where + " duplicated"
	default:
		nest := strings.Repeat("[", 200) + "x" + strings.Repeat("]", 200)
		var sn yaml.Node
		if err := yaml.Unmarshal([]byte(nest), &sn); err != nil {
			return "", "", false
		}
		p.parent.Content[p.index] = sn.Content[0]
		desc = "node at " + where + " replaced by a 200-deep sequence nest"
	}
	out, err := yaml.Marshal(&root)
	if err != nil {
		return "", "", false
	}
	return string(out), desc, true
}

// NumYAMLOps is the number of corruption operations.
func NumYAMLOps() int { return len(YAMLShapes) + 3 }

func short(s string, n int) string {
	if len(s) > n {
		return s[:n] + "..."
	}
	return s
}

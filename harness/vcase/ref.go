//go:build verif

package vcase

import (
	"fmt"
	"math"
	"strconv"
	"strings"

	"go.flow.arcalot.io/engine/internal/verif/vplug"
)

// AnyStr matches any string (engine-written messages).
type AnyStr struct{}

// Status of a DAG node in the reference model.
type Status int

const (
	Pending  Status = iota // may still happen only if a never-ending step ends
	Produced               // happened
	Dead                   // can never happen on this run
)

func (s Status) String() string { return [...]string{"pending", "produced", "dead"}[s] }

// Fault is a run-time evaluation fault predicted by the reference.
type Fault struct {
	Where  string
	Reason string
}

// StepFate is what the reference predicts for one step.
type StepFate struct {
	MayRun        bool           // plugin code may execute
	MustRun       bool           // plugin code must have executed if the run got that far
	ExpectedInput map[string]any // expected plugin input (plugin steps)
	ExpectedTag   *string        // expected deploy tag when a deploy expression is given
	Outcome       string         // scripted/observed outcome that was applied
	// foreach
	Items       []any
	Parallelism int64
	ItemModels  []*Model
}

// Model is the reference interpretation of one program with one input.
type Model struct {
	Prog   *Program
	Subs   map[string]*Program
	Input  map[string]any
	Script vplug.Script
	// Observed outcomes for racy steps (step id -> outcome string), see DESIGN section 6.
	Observed map[string]string
	// KeyOf maps a plugin step (or foreach item) to the behaviour key; default = evaluated `key` field.

	Nodes  map[string]Status // node id -> status ("steps.S.stage" and "steps.S.stage.output")
	Data   map[string]any    // node id of outputs -> data
	Fates  map[string]*StepFate
	Faults []Fault
	// OutputStatus / OutputData per declared workflow output.
	OutStatus map[string]Status
	OutData   map[string]any
	OutFault  map[string]*Fault

	strictStuck bool
}

// Options tweak the reference for known engine behaviours (documented in DESIGN).
type Options struct{}

// NewModel evaluates the reference for a program, a normalised input and a script.
func NewModel(prog *Program, subs map[string]*Program, input map[string]any, script vplug.Script, observed map[string]string) *Model {
	return newModel(prog, subs, input, script, observed, false)
}

// NewStrictModel is NewModel except that the stages a step stuck waiting for input could reach only
// when the run closes it (closed, crashed, deploy_failed; failed / closed of a loop) count as not
// producible during the run instead of pending. Where the two models differ the run can only end
// through the engine's fallback detector (open finding K14).
func NewStrictModel(prog *Program, subs map[string]*Program, input map[string]any, script vplug.Script, observed map[string]string) *Model {
	return newModel(prog, subs, input, script, observed, true)
}

func newModel(prog *Program, subs map[string]*Program, input map[string]any, script vplug.Script, observed map[string]string, strict bool) *Model {
	m := &Model{strictStuck: strict, Prog: prog, Subs: subs, Input: input, Script: script, Observed: observed,
		Nodes: map[string]Status{}, Data: map[string]any{}, Fates: map[string]*StepFate{},
		OutStatus: map[string]Status{}, OutData: map[string]any{}, OutFault: map[string]*Fault{}}
	for _, s := range prog.Steps {
		m.evalStep(s)
	}
	for _, o := range prog.Outputs {
		st := m.valStatus(o.Val)
		m.OutStatus[o.ID] = st
		if st == Produced {
			v, f := m.evalVal(o.Val, false, "outputs."+o.ID)
			if f != nil {
				m.OutFault[o.ID] = f
			} else {
				m.OutData[o.ID] = v
			}
		}
	}
	return m
}

var pluginStages = []string{"deploy", "deploy_failed", "enabling", "disabled", "starting", "running", "outputs", "crashed", "closed", "cancelled"}
var pluginOutputs = map[string][]string{
	"deploy_failed": {"error"}, "enabling": {"resolved"}, "disabled": {"output"}, "starting": {"started"},
	"outputs": {"success", "error", "alt"}, "crashed": {"error"}, "closed": {"result"},
}
var foreachStages = []string{"enabling", "disabled", "execute", "outputs", "failed", "closed"}
var foreachOutputs = map[string][]string{
	"enabling": {"resolved"}, "disabled": {"output"}, "outputs": {"success"}, "failed": {"error"}, "closed": {"result"},
}

func (m *Model) set(step, stage string, st Status) {
	m.Nodes["steps."+step+"."+stage] = st
}

func (m *Model) produce(step, stage, output string, data any) {
	m.Nodes["steps."+step+"."+stage] = Produced
	m.Nodes["steps."+step+"."+stage+"."+output] = Produced
	m.Data["steps."+step+"."+stage+"."+output] = data
}

// finalize marks everything of the step that is still unset as dead or pending.
func (m *Model) finalize(step string, stages []string, outs map[string][]string, rest Status) {
	for _, st := range stages {
		id := "steps." + step + "." + st
		if _, ok := m.Nodes[id]; !ok {
			m.Nodes[id] = rest
		}
		for _, o := range outs[st] {
			oid := id + "." + o
			if _, ok := m.Nodes[oid]; !ok {
				if m.Nodes[id] == Produced {
					m.Nodes[oid] = Dead // stage finished with another output
				} else {
					m.Nodes[oid] = m.Nodes[id]
				}
			}
		}
	}
}

func worst(a, b Status) Status {
	// Dead dominates Pending dominates Produced.
	if a == Dead || b == Dead {
		return Dead
	}
	if a == Pending || b == Pending {
		return Pending
	}
	return Produced
}

func (m *Model) refStatus(r Ref) Status {
	if r.Input {
		return Produced
	}
	st, ok := m.Nodes[r.NodeID()]
	if !ok {
		return Dead // unknown node (later step or nonexistent): never produced before the consumer
	}
	return st
}

func (m *Model) exprStatus(e *Expr) Status {
	var refs []Ref
	e.Refs(&refs)
	st := Produced
	for _, r := range refs {
		st = worst(st, m.refStatus(r))
	}
	return st
}

// valStatus computes whether the owner of the value tree can be provided with it.
func (m *Model) valStatus(v *Val) Status {
	if v == nil {
		return Produced
	}
	switch v.K {
	case "lit", "rawscalar":
		return Produced
	case "expr":
		return m.exprStatus(v.Expr)
	case "map", "list":
		st := Produced
		for _, c := range v.Vals {
			st = worst(st, m.valStatus(c))
		}
		return st
	case "oneof":
		// produced if any option produced; dead if all dead; else pending
		anyPending := false
		for _, c := range v.Vals {
			switch m.valStatus(c) {
			case Produced:
				return Produced
			case Pending:
				anyPending = true
			}
		}
		if anyPending {
			return Pending
		}
		return Dead
	case "ordisabled":
		a := m.exprStatus(v.Expr)
		b := m.refStatus(Ref{Step: v.Expr.Step, Stage: "disabled", Output: "output"})
		if a == Produced || b == Produced {
			return Produced
		}
		if a == Pending || b == Pending {
			return Pending
		}
		return Dead
	case "waitopt":
		// never blocks once the source is finished one way or the other
		if m.exprStatus(v.Expr) == Pending {
			return Pending
		}
		return Produced
	case "softopt":
		return Produced
	}
	panic("valStatus: " + v.K)
}

func (m *Model) fault(where, reason string) *Fault {
	f := &Fault{Where: where, Reason: reason}
	m.Faults = append(m.Faults, *f)
	return f
}

// absent marks an optional field that is not present.
type absent struct{}

// SoftChoice marks a soft-optional value in expected data: either absent or equal to Val.
type SoftChoice struct{ Val any }

// OneOfChoice lists admissible oneof results (several options may have been produced).
type OneOfChoice struct{ Options []any }

// evalVal evaluates a value tree. typed=true gives literals their typed Go value (step inputs
// through a typed schema), false gives the string form the engine passes through (outputs, any).
func (m *Model) evalVal(v *Val, typed bool, where string) (any, *Fault) {
	switch v.K {
	case "lit":
		if typed {
			return v.Lit.Value(), nil
		}
		if v.Lit.T == "string" {
			return v.Lit.S, nil
		}
		return litScalar(v.Lit), nil
	case "rawscalar":
		return v.Disc, nil
	case "expr":
		return m.evalExpr(v.Expr, where)
	case "map":
		out := map[string]any{}
		for i, k := range v.Keys {
			x, f := m.evalVal(v.Vals[i], typed, where+"."+k)
			if f != nil {
				return nil, f
			}
			if _, isAbsent := x.(absent); isAbsent {
				continue
			}
			out[k] = x
		}
		return out, nil
	case "list":
		out := make([]any, 0, len(v.Vals))
		for i, c := range v.Vals {
			x, f := m.evalVal(c, typed, fmt.Sprintf("%s.%d", where, i))
			if f != nil {
				return nil, f
			}
			out = append(out, x)
		}
		return out, nil
	case "oneof":
		var opts []any
		for i, c := range v.Vals {
			if m.valStatus(c) != Produced {
				continue
			}
			x, f := m.evalVal(c, typed, where+"."+v.Keys[i])
			if f != nil {
				return nil, f
			}
			mp, ok := x.(map[string]any)
			if !ok {
				return nil, m.fault(where, "oneof option is not an object")
			}
			cp := map[string]any{}
			for k, e := range mp {
				cp[k] = e
			}
			cp[v.Disc] = v.Keys[i]
			opts = append(opts, cp)
		}
		if len(opts) == 1 {
			return opts[0], nil
		}
		return OneOfChoice{Options: opts}, nil
	case "ordisabled":
		var opts []any
		if m.exprStatus(v.Expr) == Produced {
			x, f := m.evalExpr(v.Expr, where)
			if f != nil {
				return nil, f
			}
			if mp, ok := x.(map[string]any); ok {
				cp := map[string]any{"result": "enabled"}
				for k, e := range mp {
					cp[k] = e
				}
				opts = append(opts, cp)
			} else {
				return nil, m.fault(where, "ordisabled source is not an object")
			}
		}
		dis := Ref{Step: v.Expr.Step, Stage: "disabled", Output: "output"}
		if m.refStatus(dis) == Produced {
			mp := m.Data[dis.NodeID()].(map[string]any)
			cp := map[string]any{"result": "disabled"}
			for k, e := range mp {
				cp[k] = e
			}
			opts = append(opts, cp)
		}
		if len(opts) == 1 {
			return opts[0], nil
		}
		return OneOfChoice{Options: opts}, nil
	case "waitopt":
		if m.exprStatus(v.Expr) != Produced {
			return absent{}, nil
		}
		return m.evalExpr(v.Expr, where)
	case "softopt":
		if m.exprStatus(v.Expr) != Produced {
			return absent{}, nil
		}
		x, f := m.evalExpr(v.Expr, where)
		if f != nil {
			return nil, f
		}
		return SoftChoice{Val: x}, nil
	}
	panic("evalVal: " + v.K)
}

func lookupPath(v any, path []string, where string, m *Model) (any, *Fault) {
	for _, p := range path {
		mp, ok := v.(map[string]any)
		if !ok {
			return nil, m.fault(where, fmt.Sprintf("cannot select %q on %T", p, v))
		}
		x, ok := mp[p]
		if !ok {
			return nil, m.fault(where, fmt.Sprintf("key %q absent", p))
		}
		v = x
	}
	return v, nil
}

// evalExpr evaluates an expression whose references are all produced.
func (m *Model) evalExpr(e *Expr, where string) (any, *Fault) {
	switch e.K {
	case "in":
		x, ok := m.Input[e.Field]
		if !ok {
			return nil, m.fault(where, "input field "+e.Field+" absent")
		}
		return lookupPath(x, e.Path, where, m)
	case "out":
		d := m.Data["steps."+e.Step+"."+e.Stage+"."+e.Output]
		return lookupPath(d, e.Path, where, m)
	case "stage":
		// The stage's data model entry: {output id: data} of the output that was produced.
		out := map[string]any{}
		prefix := "steps." + e.Step + "." + e.Stage + "."
		for id, d := range m.Data {
			if strings.HasPrefix(id, prefix) && !strings.Contains(id[len(prefix):], ".") {
				out[id[len(prefix):]] = d
			}
		}
		return out, nil
	case "lit":
		return e.Lit.Value(), nil
	case "idx":
		base, f := m.evalExpr(e.Args[0], where)
		if f != nil {
			return nil, f
		}
		l, ok := base.([]any)
		if !ok {
			return nil, m.fault(where, "index on non-list")
		}
		i := e.Index
		n := int64(len(l))
		if i >= n || i < -n {
			return nil, m.fault(where, "index out of range")
		}
		if i < 0 {
			i += n
		}
		return l[i], nil
	case "bin":
		a, f := m.evalExpr(e.Args[0], where)
		if f != nil {
			return nil, f
		}
		b, f := m.evalExpr(e.Args[1], where)
		if f != nil {
			return nil, f
		}
		return m.binop(e.Op, a, b, where)
	case "call":
		args := make([]any, len(e.Args))
		for i, a := range e.Args {
			x, f := m.evalExpr(a, where)
			if f != nil {
				return nil, f
			}
			args[i] = x
		}
		return m.call(e.Fn, args, where)
	}
	panic("evalExpr: " + e.K)
}

func (m *Model) binop(op string, a, b any, where string) (any, *Fault) {
	_, aAny := a.(AnyStr)
	_, bAny := b.(AnyStr)
	if (aAny || bAny) && op == "+" {
		return AnyStr{}, nil
	}
	switch x := a.(type) {
	case int64:
		y, ok := b.(int64)
		if !ok {
			return nil, m.fault(where, "type mismatch")
		}
		switch op {
		case "+":
			return x + y, nil
		case "-":
			return x - y, nil
		case "*":
			return x * y, nil
		case "/":
			if y == 0 {
				return nil, m.fault(where, "integer division by zero")
			}
			return x / y, nil
		case "%":
			if y == 0 {
				return nil, m.fault(where, "integer modulo by zero")
			}
			return x % y, nil
		case "==":
			return x == y, nil
		case "!=":
			return x != y, nil
		case "<":
			return x < y, nil
		case ">":
			return x > y, nil
		case "<=":
			return x <= y, nil
		case ">=":
			return x >= y, nil
		}
	case string:
		y, ok := b.(string)
		if !ok {
			return nil, m.fault(where, "type mismatch")
		}
		switch op {
		case "+":
			return x + y, nil
		case "==":
			return x == y, nil
		case "!=":
			return x != y, nil
		}
	case bool:
		y, ok := b.(bool)
		if !ok {
			return nil, m.fault(where, "type mismatch")
		}
		switch op {
		case "&&":
			return x && y, nil
		case "||":
			return x || y, nil
		case "==":
			return x == y, nil
		case "!=":
			return x != y, nil
		}
	case float64:
		y, ok := b.(float64)
		if !ok {
			return nil, m.fault(where, "type mismatch")
		}
		switch op {
		case "+":
			return x + y, nil
		case "-":
			return x - y, nil
		case "*":
			return x * y, nil
		case "<":
			return x < y, nil
		case ">":
			return x > y, nil
		}
	}
	return nil, m.fault(where, fmt.Sprintf("unsupported operation %s on %T", op, a))
}

func (m *Model) call(fn string, args []any, where string) (any, *Fault) {
	for _, a := range args {
		if _, ok := a.(AnyStr); ok {
			switch fn {
			case "toUpper", "toLower":
				return AnyStr{}, nil
			}
		}
	}
	bad := func() (any, *Fault) { return nil, m.fault(where, "bad arguments to "+fn) }
	switch fn {
	case "intToString":
		x, ok := args[0].(int64)
		if !ok {
			return bad()
		}
		return strconv.FormatInt(x, 10), nil
	case "boolToString":
		x, ok := args[0].(bool)
		if !ok {
			return bad()
		}
		return strconv.FormatBool(x), nil
	case "stringToInt":
		x, ok := args[0].(string)
		if !ok {
			return bad()
		}
		// documented: base-10 integer; anything else is an error
		if x == "" {
			return nil, m.fault(where, "stringToInt of empty string")
		}
		neg := false
		digits := x
		if x[0] == '-' || x[0] == '+' {
			neg = x[0] == '-'
			digits = x[1:]
		}
		if digits == "" {
			return nil, m.fault(where, "stringToInt: no digits")
		}
		var n int64
		for _, c := range digits {
			if c < '0' || c > '9' {
				return nil, m.fault(where, "stringToInt: not a number")
			}
			d := int64(c - '0')
			if n > (math.MaxInt64-d)/10 {
				return nil, m.fault(where, "stringToInt: overflow")
			}
			n = n*10 + d
		}
		if neg {
			n = -n
		}
		return n, nil
	case "toUpper":
		x, ok := args[0].(string)
		if !ok {
			return bad()
		}
		return strings.ToUpper(x), nil
	case "toLower":
		x, ok := args[0].(string)
		if !ok {
			return bad()
		}
		return strings.ToLower(x), nil
	case "intToFloat":
		x, ok := args[0].(int64)
		if !ok {
			return bad()
		}
		return float64(x), nil
	case "stringToBool":
		x, ok := args[0].(string)
		if !ok {
			return bad()
		}
		switch strings.ToLower(x) {
		case "1", "t", "true":
			return true, nil
		case "0", "f", "false":
			return false, nil
		}
		return nil, m.fault(where, "stringToBool: not a boolean")
	}
	return nil, m.fault(where, "unknown function "+fn)
}

// --- scripted plugin functions, written independently of vplug ---

func refInt(v any) int64 {
	if x, ok := v.(int64); ok {
		return x
	}
	return 0
}

// RefSuccess is the reference's own statement of the plugin's success function.
func RefSuccess(in map[string]any) map[string]any {
	a := refInt(in["a"])
	l, _ := in["l"].([]any)
	b, _ := in["b"].(string)
	c, _ := in["c"].(bool)
	key, _ := in["key"].(string)
	nl := make([]any, 0, len(l)+1)
	nl = append(nl, l...)
	nl = append(nl, a)
	out := map[string]any{"v": a*2 + 1 + int64(len(l)), "s": key + ":" + b, "ok": !c, "l": nl}
	if _, isAny := in["b"].(AnyStr); isAny {
		out["s"] = AnyStr{}
	}
	if o, ok := in["opt1"]; ok {
		out["opt"] = refInt(o)
	}
	return out
}

// RefError is the reference's statement of the error output.
func RefError(in map[string]any) map[string]any {
	b, _ := in["b"].(string)
	key, _ := in["key"].(string)
	if _, isAny := in["b"].(AnyStr); isAny {
		return map[string]any{"msg": AnyStr{}}
	}
	return map[string]any{"msg": "err:" + key + ":" + b}
}

// RefAlt is the reference's statement of the alt output.
func RefAlt(in map[string]any) map[string]any {
	return map[string]any{"v": refInt(in["a"]) - 1}
}

func (m *Model) outcomeFor(stepID, key string) string {
	if o, ok := m.Observed[key]; ok {
		return o
	}
	b, ok := m.Script.Steps[key]
	if !ok || b.Outcome == "" {
		return "success"
	}
	return b.Outcome
}

func srcOf(s *Step) string {
	if s.Src != "" {
		return s.Src
	}
	return "vp://" + s.ID
}

func (m *Model) evalStep(s *Step) {
	switch s.Kind {
	case "plugin", "":
		m.evalPlugin(s)
	case "foreach":
		m.evalForeach(s)
	case "vstartfail":
		m.Fates[s.ID] = &StepFate{}
	}
}

func (m *Model) evalPlugin(s *Step) {
	fate := &StepFate{}
	m.Fates[s.ID] = fate
	id := s.ID
	waiting := false // true while the step sits waiting for input it will never get
	done := func(rest Status) {
		if waiting && m.Observed["closed-at-shutdown:"+id] != "" {
			// observed: the step never executed; when the run was shut down it was closed while
			// waiting, which produces closed.result (DESIGN 13.2)
			m.produce(id, "closed", "result", map[string]any{"cancelled": false, "close_requested": true})
		}
		if waiting && rest == Dead {
			// A step that is stuck waiting for an input that can never arrive does not finish during
			// the run: the stages it could still reach through completion edges (closed, crashed,
			// deploy_failed) are neither produced nor ruled out - they stay pending until the run
			// closes the step. A wait-optional field on them is therefore never evaluated.
			for _, st := range []string{"closed", "crashed", "deploy_failed"} {
				if _, set := m.Nodes["steps."+id+"."+st]; !set {
					if m.strictStuck {
						m.set(id, st, Dead)
					} else {
						m.set(id, st, Pending)
					}
				}
			}
			// Stuck before deployment: the enabling stage simply never happens; unless its own
			// dependencies are ruled out, it (and the disabled stage behind it) stays pending too.
			if _, deployed := m.Nodes["steps."+id+".deploy"]; !deployed && m.valStatus(s.Enabled) != Dead {
				m.set(id, "enabling", Pending)
				m.set(id, "disabled", Pending)
			}
		}
		if rest == Pending {
			// Unresolvability travels through the dependency graph independently of what the step
			// has physically done: a later stage with a dependency that can never be produced is
			// ruled out even while an earlier stage is still pending.
			enablingDeps := m.valStatus(s.Enabled)
			startingDeps := worst(worst(m.valStatus(s.Input), m.valStatus(s.WaitFor)), m.valStatus(s.ClosureTimeoutMs))
			if enablingDeps == Dead {
				for _, st := range []string{"enabling", "disabled"} {
					if _, set := m.Nodes["steps."+id+"."+st]; !set {
						m.set(id, st, Dead)
					}
				}
			}
			if enablingDeps == Dead || startingDeps == Dead || m.valStatus(s.DeployTag) == Dead {
				for _, st := range []string{"starting", "running", "outputs"} {
					if _, set := m.Nodes["steps."+id+"."+st]; !set {
						m.set(id, st, Dead)
					}
				}
			}
		}
		m.finalize(id, pluginStages, pluginOutputs, rest)
	}
	// the cancelled stage never completes as a stage
	m.set(id, "cancelled", Dead)

	// deploy
	switch st := m.valStatus(s.DeployTag); st {
	case Dead, Pending:
		waiting = true
		done(st)
		return
	}
	if s.DeployTag != nil {
		tv, f := m.evalVal(s.DeployTag, true, id+".deploy")
		if f != nil {
			done(Dead)
			return
		}
		if ts, ok := tv.(string); ok {
			fate.ExpectedTag = &ts
		}
	}
	db := m.Script.Deploys[srcOf(s)]
	if db.FailRun || m.Observed["deploy-fail:"+srcOf(s)] != "" {
		m.set(id, "deploy", Produced)
		m.produce(id, "deploy_failed", "error", map[string]any{"error": AnyStr{}})
		done(Dead)
		return
	}
	m.set(id, "deploy", Produced)
	m.set(id, "deploy_failed", Dead)

	// enabling
	switch st := m.valStatus(s.Enabled); st {
	case Dead, Pending:
		waiting = true
		done(st)
		return
	}
	enabled := true
	if s.Enabled != nil {
		ev, f := m.evalVal(s.Enabled, true, id+".enabled")
		if f != nil {
			done(Dead)
			return
		}
		enabled = truthy(ev)
	}
	m.produce(id, "enabling", "resolved", map[string]any{"enabled": enabled})
	if !enabled {
		m.produce(id, "disabled", "output", map[string]any{"message": AnyStr{}})
		done(Dead)
		return
	}
	m.set(id, "disabled", Dead)

	// starting
	st := worst(worst(m.valStatus(s.Input), m.valStatus(s.WaitFor)), m.valStatus(s.ClosureTimeoutMs))
	if st != Produced {
		waiting = true
		done(st)
		return
	}
	inv, f := m.evalVal(s.Input, true, id+".input")
	if f != nil {
		done(Dead)
		return
	}
	if s.WaitFor != nil {
		if _, f := m.evalVal(s.WaitFor, false, id+".wait_for"); f != nil {
			done(Dead)
			return
		}
	}
	in, _ := inv.(map[string]any)
	fate.ExpectedInput = in
	key, _ := in["key"].(string)
	outcome := m.outcomeFor(id, key)
	fate.Outcome = outcome
	if outcome == "stopped_before_start" {
		// observed: stop_if fired before the plugin started
		m.produce(id, "closed", "result", map[string]any{"cancelled": true, "close_requested": false})
		done(Dead)
		return
	}
	if db.MismatchRun || db.BadWritesRun {
		m.produce(id, "crashed", "error", map[string]any{"output": AnyStr{}})
		done(Dead)
		return
	}
	fate.MayRun = true
	fate.MustRun = true
	m.produce(id, "starting", "started", map[string]any{})
	switch outcome {
	case "success":
		m.set(id, "running", Produced)
		m.produce(id, "outputs", "success", RefSuccess(in))
	case "error":
		m.set(id, "running", Produced)
		m.produce(id, "outputs", "error", RefError(in))
	case "alt", "cancelled_alt":
		m.set(id, "running", Produced)
		m.produce(id, "outputs", "alt", RefAlt(in))
	case "crash", "bad_output", "undeclared", "cancelled_crash":
		m.produce(id, "crashed", "error", map[string]any{"output": AnyStr{}})
	case "never":
		done(Pending)
		return
	default:
		panic("unknown outcome " + outcome)
	}
	done(Dead)
}

func (m *Model) evalForeach(s *Step) {
	fate := &StepFate{}
	m.Fates[s.ID] = fate
	id := s.ID
	done := func(rest Status) { m.finalize(id, foreachStages, foreachOutputs, rest) }
	switch st := m.valStatus(s.Enabled); st {
	case Dead, Pending:
		done(st)
		return
	}
	enabled := true
	if s.Enabled != nil {
		ev, f := m.evalVal(s.Enabled, true, id+".enabled")
		if f != nil {
			done(Dead)
			return
		}
		enabled = truthy(ev)
	}
	m.produce(id, "enabling", "resolved", map[string]any{"enabled": enabled})
	if !enabled {
		m.produce(id, "disabled", "output", map[string]any{"message": AnyStr{}})
		done(Dead)
		return
	}
	m.set(id, "disabled", Dead)
	st := worst(worst(m.valStatus(s.Items), m.valStatus(s.WaitFor)), m.valStatus(s.Parallelism))
	if st != Produced {
		if st == Dead {
			// stuck waiting for its execute input: failed / closed stay pending (see evalPlugin)
			if m.strictStuck {
				m.set(id, "failed", Dead)
				m.set(id, "closed", Dead)
			} else {
				m.set(id, "failed", Pending)
				m.set(id, "closed", Pending)
			}
		}
		done(st)
		return
	}
	iv, f := m.evalVal(s.Items, true, id+".items")
	if f != nil {
		done(Dead)
		return
	}
	items, _ := iv.([]any)
	fate.Items = items
	fate.Parallelism = 1
	if s.Parallelism != nil {
		pv, f := m.evalVal(s.Parallelism, true, id+".parallelism")
		if f != nil {
			done(Dead)
			return
		}
		if p, ok := pv.(int64); ok {
			fate.Parallelism = p
		}
	}
	fate.MayRun = true
	sub := m.Subs[s.Workflow]
	data := make([]any, len(items))
	errs := map[string]any{}
	okData := map[string]any{}
	pending := false
	for i, it := range items {
		itemIn, _ := it.(map[string]any)
		im := newModel(sub, m.Subs, NormalizeInput(sub, itemIn), m.Script, m.Observed, m.strictStuck)
		fate.ItemModels = append(fate.ItemModels, im)
		switch {
		case im.OutStatus["success"] == Produced && im.OutFault["success"] == nil && onlyProducible(im, "success"):
			data[i] = im.OutData["success"]
			okData[strconv.Itoa(i)] = im.OutData["success"]
		case anyPending(im) && !anyProduced(im):
			pending = true
		default:
			errs[strconv.Itoa(i)] = AnyStr{}
		}
	}
	if pending {
		done(Pending)
		return
	}
	m.set(id, "execute", Produced)
	if len(errs) == 0 {
		m.produce(id, "outputs", "success", map[string]any{"data": data})
	} else {
		m.produce(id, "failed", "error", map[string]any{"data": okData, "errors": errs})
	}
	done(Dead)
}

// EagerFaults reports whether evaluating any step expression whose sources were produced fails,
// also for steps that never get as far as using the value (disabled, stuck, failed earlier): the
// engine resolves a stage's input as soon as its dependencies are there and ends the run with an
// error when that evaluation fails.
func (m *Model) EagerFaults() bool {
	n := len(m.Faults)
	for _, s := range m.Prog.Steps {
		for _, v := range []*Val{s.Input, s.WaitFor, s.DeployTag, s.Enabled, s.StopIf, s.ClosureTimeoutMs, s.Items, s.Parallelism} {
			if v == nil || m.valStatus(v) != Produced {
				continue
			}
			if _, f := m.evalVal(v, true, "steps."+s.ID); f != nil {
				return true
			}
		}
	}
	return len(m.Faults) > n
}

// truthy interprets a value the way the SDK's bool schema unserialises it (literal spellings).
func truthy(v any) bool {
	switch x := v.(type) {
	case bool:
		return x
	case string:
		switch strings.ToLower(x) {
		case "1", "yes", "y", "on", "true", "enable", "enabled":
			return true
		}
	case int64:
		return x == 1
	}
	return false
}

func onlyProducible(m *Model, id string) bool {
	for o, st := range m.OutStatus {
		if o != id && st == Produced {
			return false
		}
	}
	return true
}

func anyPending(m *Model) bool {
	for _, st := range m.OutStatus {
		if st == Pending {
			return true
		}
	}
	return false
}

func anyProduced(m *Model) bool {
	for _, st := range m.OutStatus {
		if st == Produced {
			return true
		}
	}
	return false
}

// Producible lists the declared outputs the reference says can be returned.
func (m *Model) Producible() []string {
	var out []string
	for _, o := range m.Prog.Outputs {
		if m.OutStatus[o.ID] == Produced {
			out = append(out, o.ID)
		}
	}
	return out
}

// NormalizeInput applies the declared input schema to a document: typed values, defaults.
// It is the harness's own normalisation (C19), independent of the engine's schema code.
func NormalizeInput(p *Program, doc map[string]any) map[string]any {
	return normalizeFields(p.Input, doc)
}

func normalizeFields(fields []InField, doc map[string]any) map[string]any {
	out := map[string]any{}
	for _, f := range fields {
		v, ok := doc[f.Name]
		if !ok || v == nil {
			if f.Default != nil {
				out[f.Name] = f.Default.Value()
			}
			continue
		}
		out[f.Name] = normalizeValue(f, v)
	}
	return out
}

func normalizeValue(f InField, v any) any {
	if m, ok := v.(map[string]any); ok && len(m) == 1 {
		if raw, ok := m["$raw"].(string); ok {
			v = raw // a plain scalar of the document: its text
		}
	}
	switch f.Type {
	case "int":
		return toInt(v)
	case "float":
		switch x := v.(type) {
		case float64:
			return x
		case int64:
			return float64(x)
		case int:
			return float64(x)
		case string:
			fl, _ := strconv.ParseFloat(x, 64)
			return fl
		}
	case "bool":
		switch x := v.(type) {
		case bool:
			return x
		case string:
			switch strings.ToLower(x) {
			case "1", "yes", "y", "on", "true", "enable", "enabled":
				return true
			}
			return false
		}
	case "string":
		switch x := v.(type) {
		case string:
			return x
		case int64:
			return strconv.FormatInt(x, 10)
		}
	case "list_int":
		l, _ := v.([]any)
		out := make([]any, len(l))
		for i, e := range l {
			out[i] = toInt(e)
		}
		return out
	case "list_str":
		l, _ := v.([]any)
		out := make([]any, len(l))
		copy(out, l)
		return out
	case "map_int":
		mp, _ := v.(map[string]any)
		out := map[string]any{}
		for k, e := range mp {
			out[k] = toInt(e)
		}
		return out
	case "obj":
		mp, _ := v.(map[string]any)
		return normalizeFields(f.Fields, mp)
	}
	return v
}

func toInt(v any) any {
	switch x := v.(type) {
	case int64:
		return x
	case int:
		return int64(x)
	case float64:
		return int64(x)
	case string:
		n, err := strconv.ParseInt(x, 10, 64)
		if err == nil {
			return n
		}
	}
	return v
}

//go:build verif

package vcase

import (
	"encoding/json"
	"fmt"
	"strconv"
	"strings"
)

type yw struct {
	b strings.Builder
}

func (w *yw) line(indent int, s string) {
	w.b.WriteString(strings.Repeat("  ", indent))
	w.b.WriteString(s)
	w.b.WriteByte('\n')
}

func q(s string) string {
	// JSON strings are valid YAML double-quoted scalars.
	b, _ := json.Marshal(s)
	return string(b)
}

func sq(s string) string {
	return "'" + strings.ReplaceAll(s, "'", "''") + "'"
}

func litScalar(l *Lit) string {
	switch l.T {
	case "int":
		return strconv.FormatInt(l.I, 10)
	case "float":
		return strconv.FormatFloat(l.F, 'g', -1, 64)
	case "string":
		return q(l.S)
	case "bool":
		if l.B {
			return "true"
		}
		return "false"
	}
	panic("bad lit")
}

// scalarOf returns the single-line rendering of v if it has one.
func scalarOf(v *Val) (string, bool) {
	switch v.K {
	case "lit":
		return litScalar(v.Lit), true
	case "expr":
		return "!expr " + sq(v.Expr.Text()), true
	case "ordisabled":
		return "!ordisabled " + sq(v.Expr.Text()), true
	case "waitopt":
		return "!wait-optional " + sq(v.Expr.Text()), true
	case "softopt":
		return "!soft-optional " + sq(v.Expr.Text()), true
	case "map":
		if len(v.Keys) == 0 {
			return "{}", true
		}
	case "list":
		if len(v.Vals) == 0 {
			return "[]", true
		}
	case "rawscalar":
		return v.Disc, true
	}
	return "", false
}

// emitKV writes "key: value" at the indent.
func (w *yw) emitKV(indent int, key string, v *Val) {
	if s, ok := scalarOf(v); ok {
		w.line(indent, q(key)+": "+s)
		return
	}
	switch v.K {
	case "oneof":
		w.line(indent, q(key)+": !oneof")
	default:
		w.line(indent, q(key)+":")
	}
	w.emitBody(indent+1, v)
}

// emitBody writes the body of a non-scalar value at the indent.
func (w *yw) emitBody(indent int, v *Val) {
	switch v.K {
	case "map":
		for i, k := range v.Keys {
			w.emitKV(indent, k, v.Vals[i])
		}
	case "list":
		for _, it := range v.Vals {
			if s, ok := scalarOf(it); ok {
				w.line(indent, "- "+s)
				continue
			}
			switch it.K {
			case "oneof":
				w.line(indent, "- !oneof")
				w.emitBody(indent+1, it)
			default:
				w.line(indent, "-")
				w.emitBody(indent+1, it)
			}
		}
	case "oneof":
		w.line(indent, "discriminator: "+q(v.Disc))
		w.line(indent, "one_of:")
		for i, k := range v.Keys {
			w.emitKV(indent+1, k, v.Vals[i])
		}
	default:
		panic("emitBody: " + v.K)
	}
}

func typeYAML(f InField) string {
	switch f.Type {
	case "int":
		s := "{type_id: integer"
		if f.Min != nil {
			s += fmt.Sprintf(", min: %d", *f.Min)
		}
		if f.Max != nil {
			s += fmt.Sprintf(", max: %d", *f.Max)
		}
		return s + "}"
	case "string":
		s := "{type_id: string"
		if f.Min != nil {
			s += fmt.Sprintf(", min: %d", *f.Min)
		}
		if f.Max != nil {
			s += fmt.Sprintf(", max: %d", *f.Max)
		}
		return s + "}"
	case "bool":
		return "{type_id: bool}"
	case "float":
		return "{type_id: float}"
	case "pattern":
		return "{type_id: pattern}"
	case "enum":
		return "{type_id: enum_string, values: {alpha: {name: Alpha}, beta: {name: Beta}, gamma: {name: Gamma}}}"
	case "list_int":
		return "{type_id: list, items: {type_id: integer}}"
	case "list_str":
		return "{type_id: list, items: {type_id: string}}"
	case "map_int":
		return "{type_id: map, keys: {type_id: string}, values: {type_id: integer}}"
	case "obj":
		return "{type_id: ref, id: " + objID(f) + "}"
	}
	panic("bad input field type " + f.Type)
}

func objID(f InField) string { return "Obj_" + f.Name }

func (w *yw) emitObject(indent int, id string, fields []InField, nested *[]InField) {
	w.line(indent, id+":")
	w.line(indent+1, "id: "+id)
	if len(fields) == 0 {
		w.line(indent+1, "properties: {}")
		return
	}
	w.line(indent+1, "properties:")
	for _, f := range fields {
		w.line(indent+2, q(f.Name)+":")
		w.line(indent+3, "type: "+typeYAML(f))
		if !f.Required {
			w.line(indent+3, "required: false")
		}
		if f.Default != nil {
			def, _ := json.Marshal(f.Default.Value())
			w.line(indent+3, "default: "+sq(string(def)))
		}
		if f.Type == "obj" {
			*nested = append(*nested, f)
		}
	}
}

// RenderYAML renders a program as workflow YAML.
func RenderYAML(p *Program) string {
	w := &yw{}
	ver := p.Version
	if ver == "" {
		ver = "v0.2.0"
	}
	w.line(0, "version: "+ver)
	w.line(0, "input:")
	w.line(1, "root: RootObject")
	w.line(1, "objects:")
	var nested []InField
	w.emitObject(2, "RootObject", p.Input, &nested)
	for i := 0; i < len(nested); i++ {
		w.emitObject(2, objID(nested[i]), nested[i].Fields, &nested)
	}
	w.line(0, "steps:")
	for _, s := range p.Steps {
		w.line(1, q(s.ID)+":")
		switch s.Kind {
		case "plugin", "":
			src := s.Src
			if src == "" {
				src = "vp://" + s.ID
			}
			w.line(2, "plugin: {src: "+q(src)+", deployment_type: v}")
			if !s.OmitStep {
				w.line(2, "step: "+q(s.Op))
			}
			if s.Input != nil {
				w.emitKV(2, "input", s.Input)
			}
			if s.DeployTag != nil {
				w.emitKV(2, "deploy", MapVal([]string{"deployer_name", "tag"}, []*Val{LitVal(StrLit("vdep")), s.DeployTag}))
			}
			if s.ClosureTimeoutMs != nil {
				w.emitKV(2, "closure_wait_timeout", s.ClosureTimeoutMs)
			}
			if s.StopIf != nil {
				w.emitKV(2, "stop_if", s.StopIf)
			}
		case "foreach":
			w.line(2, "kind: foreach")
			if s.WorkflowSpelling != "" {
				w.line(2, "workflow: "+q(s.WorkflowSpelling))
			} else {
				w.line(2, "workflow: "+q(s.Workflow))
			}
			if s.Items != nil {
				w.emitKV(2, "items", s.Items)
			}
			if s.Parallelism != nil {
				w.emitKV(2, "parallelism", s.Parallelism)
			}
		case "vstartfail":
			w.line(2, "kind: vstartfail")
			if s.Fail {
				w.line(2, "fail: true")
			}
		default:
			w.line(2, "kind: "+q(s.Kind))
		}
		if s.WaitFor != nil {
			w.emitKV(2, "wait_for", s.WaitFor)
		}
		if s.Enabled != nil {
			w.emitKV(2, "enabled", s.Enabled)
		}
		for _, k := range sortedKeys(s.Extra) {
			w.line(2, k+": "+s.Extra[k])
		}
	}
	if p.LegacyOutput {
		w.emitKV(0, "output", p.Outputs[0].Val)
	} else {
		w.line(0, "outputs:")
		for _, o := range p.Outputs {
			w.emitKV(1, o.ID, o.Val)
		}
	}
	if p.OutputSchemaErr != nil {
		w.line(0, "outputSchema:")
		for _, o := range p.Outputs {
			isErr, ok := p.OutputSchemaErr[o.ID]
			if !ok {
				continue
			}
			w.line(1, q(o.ID)+":")
			w.line(2, fmt.Sprintf("error: %v", isErr))
			w.line(2, "schema:")
			w.line(3, "root: OutRoot")
			w.line(3, "objects:")
			w.line(4, "OutRoot:")
			w.line(5, "id: OutRoot")
			w.line(5, "properties:")
			for _, k := range o.Val.Keys {
				w.line(6, q(k)+":")
				w.line(7, "type: {type_id: any}")
				w.line(7, "required: false")
			}
			if len(o.Val.Keys) == 0 {
				w.b.WriteString("")
			}
		}
	}
	return w.b.String()
}

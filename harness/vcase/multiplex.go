//go:build verif

package vcase

// Multiplex rewrites a program so that every plugin behaviour key is prefixed by the workflow
// input field `rk` (the run key): overlapping runs of one prepared workflow can then be told
// apart in the plugin log, and each run can have its own script.
func Multiplex(p *Program, subs map[string]*Program) {
	p.Input = append(p.Input, InField{Name: "rk", Type: "string", Required: true})
	prefix := func(lit string) *Val {
		return ExprVal(&Expr{K: "bin", Op: "+", Args: []*Expr{{K: "in", Field: "rk"}, {K: "lit", Lit: StrLit("/" + lit)}}})
	}
	for _, s := range p.Steps {
		switch s.Kind {
		case "plugin", "":
			if kv := s.Input.Get("key"); kv != nil && kv.K == "lit" {
				s.Input.Set("key", prefix(kv.Lit.S))
			}
		case "foreach":
			if s.Items != nil && s.Items.K == "list" {
				for _, it := range s.Items.Vals {
					if kv := it.Get("k"); kv != nil && kv.K == "lit" {
						it.Set("k", prefix(kv.Lit.S))
					}
				}
			}
		}
	}
}

//go:build verif

package vcase

import (
	"fmt"
	"sort"
)

func num(v any) (float64, bool) {
	switch x := v.(type) {
	case int64:
		return float64(x), true
	case int:
		return float64(x), true
	case float64:
		return x, true
	case uint64:
		return float64(x), true
	}
	return 0, false
}

// Match compares an expected value (possibly containing AnyStr, SoftChoice, OneOfChoice) with an
// actual value as decoded from the worker's JSON answer. It returns "" on a match, otherwise
// the path and reason of the first difference.
func Match(exp, act any) string {
	return match(exp, act, "$")
}

func match(exp, act any, path string) string {
	switch e := exp.(type) {
	case AnyStr:
		if _, ok := act.(string); !ok {
			return fmt.Sprintf("%s: expected a string, got %T %v", path, act, act)
		}
		return ""
	case SoftChoice:
		return match(e.Val, act, path)
	case OneOfChoice:
		var first string
		for _, o := range e.Options {
			d := match(o, act, path)
			if d == "" {
				return ""
			}
			if first == "" {
				first = d
			}
		}
		return fmt.Sprintf("%s: no admissible oneof option matches (%s)", path, first)
	case map[string]any:
		a, ok := act.(map[string]any)
		if !ok {
			return fmt.Sprintf("%s: expected object, got %T %v", path, act, act)
		}
		keys := make([]string, 0, len(e))
		for k := range e {
			keys = append(keys, k)
		}
		sort.Strings(keys)
		for _, k := range keys {
			av, present := a[k]
			if _, soft := e[k].(SoftChoice); soft && !present {
				continue
			}
			if !present {
				return fmt.Sprintf("%s.%s: missing in actual", path, k)
			}
			if d := match(e[k], av, path+"."+k); d != "" {
				return d
			}
		}
		for k := range a {
			if _, ok := e[k]; !ok {
				return fmt.Sprintf("%s.%s: unexpected key in actual (value %v)", path, k, a[k])
			}
		}
		return ""
	case []any:
		a, ok := act.([]any)
		if !ok {
			if act == nil && len(e) == 0 {
				return ""
			}
			return fmt.Sprintf("%s: expected list, got %T %v", path, act, act)
		}
		if len(a) != len(e) {
			return fmt.Sprintf("%s: list length %d, expected %d", path, len(a), len(e))
		}
		for i := range e {
			if d := match(e[i], a[i], fmt.Sprintf("%s[%d]", path, i)); d != "" {
				return d
			}
		}
		return ""
	case string:
		if a, ok := act.(string); ok && a == e {
			return ""
		}
		return fmt.Sprintf("%s: expected %q, got %T %v", path, e, act, act)
	case bool:
		if a, ok := act.(bool); ok && a == e {
			return ""
		}
		return fmt.Sprintf("%s: expected %v, got %T %v", path, e, act, act)
	case nil:
		if act == nil {
			return ""
		}
		return fmt.Sprintf("%s: expected nil, got %v", path, act)
	}
	if en, ok := num(exp); ok {
		if an, ok := num(act); ok && an == en {
			return ""
		}
		return fmt.Sprintf("%s: expected number %v, got %T %v", path, exp, act, act)
	}
	return fmt.Sprintf("%s: unsupported expected type %T", path, exp)
}

//go:build verif

package vcase

import (
	"encoding/json"
	"fmt"
)

// Corruption is a single-point corruption of an accepted program that makes it invalid.
type Corruption struct {
	Kind string `json:"kind"`
	Desc string `json:"desc"`
}

func cloneProgram(p *Program) *Program {
	b, _ := json.Marshal(p)
	var out Program
	_ = json.Unmarshal(b, &out)
	return &out
}

// exprLeaves lists pointers to all Val leaves holding a plain expression, with their owner step index
// (-1 for outputs).
type leafRef struct {
	val   *Val
	step  int
	field string
}

func leaves(p *Program) []leafRef {
	var out []leafRef
	add := func(v *Val, step int, field string) {
		v.Walk(func(x *Val) {
			if x.K == "expr" || x.K == "waitopt" || x.K == "softopt" {
				out = append(out, leafRef{x, step, field})
			}
		})
	}
	for i, s := range p.Steps {
		add(s.Input, i, "input")
		add(s.WaitFor, i, "wait_for")
		add(s.Enabled, i, "enabled")
		add(s.DeployTag, i, "deploy")
		add(s.Items, i, "items")
	}
	for _, o := range p.Outputs {
		add(o.Val, -1, "output:"+o.ID)
	}
	return out
}

// firstRef finds the first out/stage/in sub-expression.
func firstRef(e *Expr, kinds ...string) *Expr {
	for _, k := range kinds {
		if e.K == k {
			return e
		}
	}
	for _, a := range e.Args {
		if r := firstRef(a, kinds...); r != nil {
			return r
		}
	}
	return nil
}

// Corruptions enumerates all single-point corruptions applicable to p. Each returned program is
// independent of p.
func Corruptions(p *Program) ([]*Program, []Corruption) {
	var progs []*Program
	var descs []Corruption
	emit := func(kind, desc string, mutate func(q *Program) bool) {
		q := cloneProgram(p)
		if mutate(q) {
			progs = append(progs, q)
			descs = append(descs, Corruption{Kind: kind, Desc: desc})
		}
	}
	nLeaves := len(leaves(p))
	for li := 0; li < nLeaves; li++ {
		li := li
		lf := leaves(p)[li]
		where := fmt.Sprintf("leaf %d (%s of step %d)", li, lf.field, lf.step)
		if r := firstRef(lf.val.Expr, "out", "stage"); r != nil {
			emit("rename-step", "reference to a step that does not exist at "+where, func(q *Program) bool {
				firstRef(leaves(q)[li].val.Expr, "out", "stage").Step = "nosuchstep"
				return true
			})
			emit("rename-stage", "reference to a stage that does not exist at "+where, func(q *Program) bool {
				firstRef(leaves(q)[li].val.Expr, "out", "stage").Stage = "nosuchstage"
				return true
			})
			emit("stage-without-outputs", "reference to a stage that has no outputs at "+where, func(q *Program) bool {
				x := firstRef(leaves(q)[li].val.Expr, "out", "stage")
				if p.StepByID(x.Step) == nil || p.StepByID(x.Step).Kind == "foreach" {
					return false
				}
				x.K, x.Stage, x.Output, x.Path = "stage", "running", "", nil
				return true
			})
		}
		if r := firstRef(lf.val.Expr, "out"); r != nil {
			emit("rename-output", "reference to an output that the stage does not declare at "+where, func(q *Program) bool {
				x := firstRef(leaves(q)[li].val.Expr, "out")
				x.Output, x.Path = "nosuchoutput", nil
				return true
			})
			if len(r.Path) > 0 {
				emit("rename-field", "reference to a field that the output does not have at "+where, func(q *Program) bool {
					x := firstRef(leaves(q)[li].val.Expr, "out")
					x.Path[len(x.Path)-1] = "nosuchfield"
					return true
				})
			}
		}
		if r := firstRef(lf.val.Expr, "in"); r != nil {
			emit("rename-input-field", "reference to a workflow input field that is not declared at "+where, func(q *Program) bool {
				firstRef(leaves(q)[li].val.Expr, "in").Field = "nosuchinput"
				return true
			})
		}
		if lf.val.K == "expr" {
			emit("unknown-function", "call of a function that does not exist at "+where, func(q *Program) bool {
				l := leaves(q)[li]
				l.val.Expr = &Expr{K: "call", Fn: "noSuchFunction", Args: []*Expr{l.val.Expr}}
				return true
			})
			emit("wrong-arity", "function called with too many arguments at "+where, func(q *Program) bool {
				l := leaves(q)[li]
				l.val.Expr = &Expr{K: "call", Fn: "toUpper", Args: []*Expr{{K: "lit", Lit: StrLit("a")}, l.val.Expr}}
				return true
			})
		}
	}
	// cycles: an earlier step starts to depend on a later step that (transitively) depends on it
	dependsOn := func(q *Program, a, b int) bool { // does step a reference step b directly
		found := false
		s := q.Steps[a]
		for _, v := range []*Val{s.Input, s.WaitFor, s.Enabled, s.DeployTag, s.Items, s.Parallelism, s.StopIf} {
			v.Walk(func(x *Val) {
				if x.Expr != nil {
					var refs []Ref
					x.Expr.Refs(&refs)
					for _, r := range refs {
						if r.Step == q.Steps[b].ID {
							found = true
						}
					}
				}
			})
		}
		return found
	}
	for a := 0; a < len(p.Steps); a++ {
		for b := a + 1; b < len(p.Steps); b++ {
			if !dependsOn(p, b, a) || p.Steps[a].Kind == "foreach" || p.Steps[a].Input == nil {
				continue
			}
			a, b := a, b
			back := &Expr{K: "stage", Step: p.Steps[b].ID, Stage: "outputs"}
			hardDep := false
			// only a dependency of b's starting/execute inputs on a's *outputs* stage forms a cycle with certainty
			sb := p.Steps[b]
			for _, v := range []*Val{sb.Input, sb.WaitFor, sb.Items} {
				v.Walk(func(x *Val) {
					if x.K == "expr" && x.Expr != nil {
						var refs []Ref
						x.Expr.Refs(&refs)
						for _, r := range refs {
							if r.Step == p.Steps[a].ID && r.Stage == "outputs" {
								hardDep = true
							}
						}
					}
				})
			}
			if !hardDep || oneofAncestor(sb, p.Steps[a].ID) {
				continue
			}
			emit("cycle-input", fmt.Sprintf("step %s now needs the outputs of %s which needs the outputs of %s", p.Steps[a].ID, sb.ID, p.Steps[a].ID), func(q *Program) bool {
				q.Steps[a].Input.Set("any2", ExprVal(back))
				return true
			})
			emit("cycle-wait-for", fmt.Sprintf("step %s now waits for %s which needs the outputs of %s", p.Steps[a].ID, sb.ID, p.Steps[a].ID), func(q *Program) bool {
				if q.Steps[a].WaitFor != nil {
					return false
				}
				q.Steps[a].WaitFor = ExprVal(back)
				return true
			})
			emit("cycle-oneof-option", fmt.Sprintf("a one-of option of step %s needs %s which needs %s", p.Steps[a].ID, sb.ID, p.Steps[a].ID), func(q *Program) bool {
				q.Steps[a].Input.Set("any2", &Val{K: "oneof", Disc: "d", Keys: []string{"x"}, Vals: []*Val{ExprVal(&Expr{K: "out", Step: sb.ID, Stage: "outputs", Output: "success"})}})
				return true
			})
		}
	}
	// per-step structural corruptions
	for i, s := range p.Steps {
		i := i
		if s.Kind != "plugin" && s.Kind != "" {
			continue
		}
		emit("missing-required-input", "required input field `key` of step "+s.ID+" removed", func(q *Program) bool {
			in := q.Steps[i].Input
			for k, key := range in.Keys {
				if key == "key" {
					in.Keys = append(in.Keys[:k], in.Keys[k+1:]...)
					in.Vals = append(in.Vals[:k], in.Vals[k+1:]...)
					return true
				}
			}
			return false
		})
		emit("wrong-literal-type", "non-numeric literal for the integer input field `a` of step "+s.ID, func(q *Program) bool {
			q.Steps[i].Input.Set("a", LitVal(StrLit("not-a-number")))
			return true
		})
		emit("wrong-literal-shape", "a map for the integer input field `a` of step "+s.ID, func(q *Program) bool {
			q.Steps[i].Input.Set("a", MapVal([]string{"x"}, []*Val{LitVal(IntLit(1))}))
			return true
		})
		emit("unknown-input-field", "input field that the step's schema does not declare in step "+s.ID, func(q *Program) bool {
			q.Steps[i].Input.Set("nosuchfield", LitVal(IntLit(1)))
			return true
		})
		emit("unknown-plugin-step", "`step:` names a step the plugin does not have in step "+s.ID, func(q *Program) bool {
			q.Steps[i].Op = "nosuchop"
			return true
		})
		emit("missing-plugin-step", "`step:` omitted although the plugin declares several steps in step "+s.ID, func(q *Program) bool {
			q.Steps[i].OmitStep = true
			return true
		})
		emit("unknown-step-key", "unknown key in the definition of step "+s.ID, func(q *Program) bool {
			q.Steps[i].Extra = map[string]string{"nosuchkey": "1"}
			return true
		})
		if i > 0 && (p.Steps[i-1].Kind == "plugin" || p.Steps[i-1].Kind == "") {
			prev := p.Steps[i-1].ID
			for _, tag := range []string{"waitopt", "softopt"} {
				tag := tag
				emit("ill-typed-field-under-optional-tag", "integer input field `a` of step "+s.ID+" is a "+tag+" reference to a string output", func(q *Program) bool {
					q.Steps[i].Input.Set("a", &Val{K: tag, Expr: &Expr{K: "out", Step: prev, Stage: "outputs", Output: "success", Path: []string{"s"}}})
					return true
				})
				emit("unknown-field-under-optional-tag", "input field the plugin step does not have, given as a "+tag+" reference, in step "+s.ID, func(q *Program) bool {
					q.Steps[i].Input.Set("nosuchfield", &Val{K: tag, Expr: &Expr{K: "out", Step: prev, Stage: "outputs", Output: "success", Path: []string{"v"}}})
					return true
				})
			}
		}
		// a step that depends on one of its own later outputs: a cycle inside one step
		self := func(stage, output string) *Val {
			return ExprVal(&Expr{K: "out", Step: s.ID, Stage: stage, Output: output})
		}
		emit("self-cycle-wait-for", "step "+s.ID+" waits for its own success output", func(q *Program) bool {
			q.Steps[i].WaitFor = self("outputs", "success")
			return true
		})
		emit("self-cycle-input", "an input field of step "+s.ID+" refers to the step's own output", func(q *Program) bool {
			q.Steps[i].Input.Set("any2", self("outputs", "success"))
			return true
		})
		emit("self-cycle-enabled", "`enabled` of step "+s.ID+" refers to the step's own closed.result", func(q *Program) bool {
			q.Steps[i].Enabled = ExprVal(&Expr{K: "out", Step: s.ID, Stage: "closed", Output: "result", Path: []string{"cancelled"}})
			return true
		})
		emit("self-cycle-under-optional-tag", "an input field of step "+s.ID+" wait-optionally refers to the step's own output", func(q *Program) bool {
			q.Steps[i].Input.Set("any2", &Val{K: "waitopt", Expr: &Expr{K: "out", Step: s.ID, Stage: "outputs", Output: "success"}})
			return true
		})
		emit("stop-if-without-cancel-handler", "`stop_if` on step "+s.ID+" whose plugin step has no cancellation handler (the lifecycle disables the field)", func(q *Program) bool {
			var src *Expr
			if i > 0 && (q.Steps[i-1].Kind == "plugin" || q.Steps[i-1].Kind == "") {
				src = &Expr{K: "out", Step: q.Steps[i-1].ID, Stage: "outputs", Output: "success"}
			} else if len(q.Input) > 0 {
				src = &Expr{K: "in", Field: q.Input[0].Name}
			} else {
				return false
			}
			q.Steps[i].Op = "op_nc"
			q.Steps[i].StopIf = ExprVal(src)
			return true
		})
		emit("wrong-closure-timeout-type", "`closure_wait_timeout` of step "+s.ID+" is not a number", func(q *Program) bool {
			q.Steps[i].ClosureTimeoutMs = LitVal(StrLit("soon"))
			return true
		})
		emit("wrong-enabled-type", "`enabled` of step "+s.ID+" is a list", func(q *Program) bool {
			q.Steps[i].Enabled = &Val{K: "list", Vals: []*Val{LitVal(BoolLit(true))}}
			return true
		})
	}
	emit("no-outputs", "workflow without outputs", func(q *Program) bool {
		q.Outputs = nil
		return true
	})
	emit("bad-version", "unsupported version string", func(q *Program) bool {
		q.Version = "v9"
		return true
	})
	return progs, descs
}

// oneofAncestor reports whether step s references step id only inside tags (then the dependency is
// not a hard one and an added back-edge need not create a cycle that must be rejected).
func oneofAncestor(s *Step, id string) bool {
	return false
}

//go:build verif

package vcase

import (
	"go.flow.arcalot.io/engine/internal/verif/vplug"
)

func pstep(id string, fields map[string]*Val) *Step {
	in := &Val{K: "map"}
	in.Set("key", LitVal(StrLit(id)))
	for _, k := range sortedKeys(fields) {
		in.Set(k, fields[k])
	}
	return &Step{ID: id, Kind: "plugin", Op: "op", Input: in}
}

func oexpr(step, stage, output string, path ...string) *Val {
	return ExprVal(&Expr{K: "out", Step: step, Stage: stage, Output: output, Path: path})
}

func motifCase(name string, steps []*Step, outputs map[string]*Val, script map[string]vplug.Behaviour, deploys map[string]vplug.DeployBehaviour) *Case {
	p := &Program{Input: []InField{{Name: "i", Type: "int", Required: true}, {Name: "b", Type: "bool", Required: true}}, Steps: steps}
	for _, k := range sortedKeys(outputs) {
		p.Outputs = append(p.Outputs, &Output{ID: k, Val: outputs[k]})
	}
	if script == nil {
		script = map[string]vplug.Behaviour{}
	}
	if deploys == nil {
		deploys = map[string]vplug.DeployBehaviour{}
	}
	return &Case{Prop: "C09", Profile: "motif:" + name, Main: p, Subs: map[string]*Program{}, InputDoc: map[string]any{"i": int64(3), "b": true},
		Script: vplug.Script{Steps: script, Deploys: deploys}, Labels: []string{"motif:" + name}}
}

// Motifs returns the canonical deterministic workflows whose meaning fixes a single result.
func Motifs() []*Case {
	slow := func(ms int, outcome string) vplug.Behaviour { return vplug.Behaviour{DelayMs: ms, Outcome: outcome} }
	inI := ExprVal(&Expr{K: "in", Field: "i"})
	var out []*Case
	out = append(out, motifCase("single", []*Step{pstep("a", map[string]*Val{"a": inI})},
		map[string]*Val{"success": MapVal([]string{"r"}, []*Val{oexpr("a", "outputs", "success")})}, map[string]vplug.Behaviour{"a": slow(10, "success")}, nil))
	out = append(out, motifCase("chain", []*Step{pstep("a", map[string]*Val{"a": inI}), pstep("b", map[string]*Val{"a": oexpr("a", "outputs", "success", "v")}), pstep("c", map[string]*Val{"b": oexpr("b", "outputs", "success", "s")})},
		map[string]*Val{"success": MapVal([]string{"r"}, []*Val{oexpr("c", "outputs", "success")})},
		map[string]vplug.Behaviour{"a": slow(20, "success"), "b": slow(10, "success"), "c": slow(5, "success")}, nil))
	// two independent steps that finish 5 ms apart, the result needs both
	out = append(out, motifCase("join", []*Step{pstep("a", nil), pstep("b", nil)},
		map[string]*Val{"success": MapVal([]string{"x", "y"}, []*Val{oexpr("a", "outputs", "success", "s"), oexpr("b", "outputs", "success", "s")})},
		map[string]vplug.Behaviour{"a": slow(20, "success"), "b": slow(25, "success")}, nil))
	wf := pstep("b", nil)
	wf.WaitFor = oexpr("a", "outputs", "success")
	out = append(out, motifCase("wait-for", []*Step{pstep("a", nil), wf},
		map[string]*Val{"success": MapVal([]string{"r"}, []*Val{oexpr("b", "outputs", "success", "s")})},
		map[string]vplug.Behaviour{"a": slow(20, "success")}, nil))
	en := pstep("b", map[string]*Val{"a": inI})
	en.Enabled = oexpr("a", "outputs", "success", "ok")
	out = append(out, motifCase("enabled-from-upstream", []*Step{pstep("a", nil), en},
		map[string]*Val{"success": MapVal([]string{"r"}, []*Val{oexpr("b", "outputs", "success", "v")})},
		map[string]vplug.Behaviour{"a": slow(20, "success")}, nil))
	dep := pstep("b", nil)
	dep.DeployTag = oexpr("a", "outputs", "success", "s")
	out = append(out, motifCase("deploy-expression", []*Step{pstep("a", nil), dep},
		map[string]*Val{"success": MapVal([]string{"r"}, []*Val{oexpr("b", "outputs", "success", "s")})},
		map[string]vplug.Behaviour{"a": slow(20, "success")}, nil))
	out = append(out, motifCase("diamond", []*Step{pstep("a", map[string]*Val{"a": inI}), pstep("b", map[string]*Val{"a": oexpr("a", "outputs", "success", "v")}),
		pstep("c", map[string]*Val{"l": oexpr("a", "outputs", "success", "l")}), pstep("d", map[string]*Val{"a": oexpr("b", "outputs", "success", "v"), "l": oexpr("c", "outputs", "success", "l")})},
		map[string]*Val{"success": MapVal([]string{"r"}, []*Val{oexpr("d", "outputs", "success")})},
		map[string]vplug.Behaviour{"a": slow(10, "success"), "b": slow(25, "success"), "c": slow(5, "success")}, nil))
	out = append(out, motifCase("failing-prerequisite", []*Step{pstep("a", nil), pstep("b", map[string]*Val{"b": oexpr("a", "outputs", "success", "s")})},
		map[string]*Val{"success": MapVal([]string{"r"}, []*Val{oexpr("b", "outputs", "success")}), "failed": MapVal([]string{"why"}, []*Val{oexpr("a", "outputs", "error", "msg")})},
		map[string]vplug.Behaviour{"a": slow(20, "error")}, nil))
	out = append(out, motifCase("crash", []*Step{pstep("a", nil)},
		map[string]*Val{"success": MapVal([]string{"r"}, []*Val{oexpr("a", "outputs", "success")}), "crashed": MapVal([]string{"why"}, []*Val{oexpr("a", "crashed", "error", "output")})},
		map[string]vplug.Behaviour{"a": slow(15, "crash")}, nil))
	out = append(out, motifCase("deploy-failure", []*Step{pstep("a", nil)},
		map[string]*Val{"success": MapVal([]string{"r"}, []*Val{oexpr("a", "outputs", "success")}), "nodeploy": MapVal([]string{"why"}, []*Val{oexpr("a", "deploy_failed", "error", "error")})},
		nil, map[string]vplug.DeployBehaviour{"vp://a": {FailRun: true, DelayMs: 10}}))
	dis := pstep("a", nil)
	dis.Enabled = LitVal(BoolLit(false))
	out = append(out, motifCase("disabled-ordisabled", []*Step{dis},
		map[string]*Val{"success": MapVal([]string{"r"}, []*Val{{K: "ordisabled", Expr: &Expr{K: "out", Step: "a", Stage: "outputs", Output: "success"}}})}, nil, nil))
	out = append(out, motifCase("oneof-consumer", []*Step{pstep("a", nil), pstep("b", nil),
		pstep("c", map[string]*Val{"any": {K: "oneof", Disc: "d", Keys: []string{"x", "y"}, Vals: []*Val{oexpr("a", "outputs", "success"), oexpr("b", "outputs", "success")}}})},
		map[string]*Val{"success": MapVal([]string{"r"}, []*Val{oexpr("c", "outputs", "success", "s")})},
		map[string]vplug.Behaviour{"a": slow(15, "error"), "b": slow(25, "success")}, nil))
	out = append(out, motifCase("wait-optional-failing-source", []*Step{pstep("a", nil),
		pstep("c", map[string]*Val{"any": MapVal([]string{"o", "k"}, []*Val{{K: "waitopt", Expr: &Expr{K: "out", Step: "a", Stage: "outputs", Output: "success"}}, LitVal(StrLit("x"))})})},
		map[string]*Val{"success": MapVal([]string{"r"}, []*Val{oexpr("c", "outputs", "success", "s")})},
		map[string]vplug.Behaviour{"a": slow(20, "crash")}, nil))
	// foreach over 3 items, and a nested foreach
	itemIn := []InField{{Name: "k", Type: "string", Required: true}, {Name: "n", Type: "int", Required: true}}
	w := &Step{ID: "w", Kind: "plugin", Op: "op", Src: "vp://loop_w", Input: MapVal([]string{"key", "a"}, []*Val{ExprVal(&Expr{K: "in", Field: "k"}), ExprVal(&Expr{K: "in", Field: "n"})})}
	sub := &Program{Input: itemIn, Steps: []*Step{w}, Outputs: []*Output{{ID: "success", Val: MapVal([]string{"r"}, []*Val{oexpr("w", "outputs", "success", "v")})}}}
	items := func(prefix string, n int) *Val {
		l := &Val{K: "list"}
		for i := 0; i < n; i++ {
			l.Vals = append(l.Vals, MapVal([]string{"k", "n"}, []*Val{LitVal(StrLit(prefix + "#" + string(rune('0'+i)))), LitVal(IntLit(int64(i)))}))
		}
		return l
	}
	fe := motifCase("foreach-3", []*Step{{ID: "loop", Kind: "foreach", Workflow: "sub.yaml", Items: items("loop", 3), Parallelism: LitVal(IntLit(2))}},
		map[string]*Val{"success": MapVal([]string{"r"}, []*Val{oexpr("loop", "outputs", "success")})},
		map[string]vplug.Behaviour{"loop#0": slow(15, "success"), "loop#1": slow(5, "success"), "loop#2": slow(10, "success")}, nil)
	fe.Subs["sub.yaml"] = sub
	out = append(out, fe)
	// a loop next to plugin steps that change stage while the loop is finishing (items end at
	// 5-15 ms; the siblings end at 10, 25, 40, 60 and 90 ms, so some sibling is in transition
	// whenever the loop is held at a schedule point); the result needs all of them
	sibSteps := []*Step{{ID: "loop", Kind: "foreach", Workflow: "sub.yaml", Items: items("loop", 3), Parallelism: LitVal(IntLit(2))}}
	sibScript := map[string]vplug.Behaviour{"loop#0": slow(15, "success"), "loop#1": slow(5, "success"), "loop#2": slow(10, "success")}
	sibOut := MapVal([]string{"r"}, []*Val{oexpr("loop", "outputs", "success")})
	for i, ms := range []int{10, 25, 40, 60, 90} {
		id := "sib" + string(rune('a'+i))
		sibSteps = append(sibSteps, pstep(id, nil))
		sibScript[id] = slow(ms, "success")
		sibOut.Set(id, oexpr(id, "outputs", "success", "s"))
	}
	fs := motifCase("foreach-with-siblings", sibSteps, map[string]*Val{"success": sibOut}, sibScript, nil)
	fs.Subs["sub.yaml"] = sub
	out = append(out, fs)
	// loops whose items arrive at the very moment the result is decided: the output needs only "a",
	// so the run is being closed down while the loops are being handed their input (five loops, as
	// the order in which the run loop visits the ready nodes is arbitrary)
	besideSteps := []*Step{pstep("a", nil)}
	besideScript := map[string]vplug.Behaviour{"a": slow(20, "success")}
	for i := 0; i < 5; i++ {
		id := "side" + string(rune('a'+i))
		it := items(id, 2)
		it.Vals[0].Set("k", oexpr("a", "outputs", "success", "s"))
		besideSteps = append(besideSteps, &Step{ID: id, Kind: "foreach", Workflow: "sub.yaml", Items: it, Parallelism: LitVal(IntLit(2))})
	}
	bs := motifCase("loops-fed-while-result-is-returned", besideSteps,
		map[string]*Val{"success": MapVal([]string{"r"}, []*Val{oexpr("a", "outputs", "success", "s")})}, besideScript, nil)
	bs.Subs["sub.yaml"] = sub
	out = append(out, bs)
	// a loop still waiting for its enabled condition is closed (the result needs only "trigger")
	// while siblings keep finishing on their own every 20 ms: whatever the loop's goroutine holds
	// while it reports the close meets a sibling's notification
	gatedSteps := []*Step{pstep("trigger", nil)}
	gatedScript := map[string]vplug.Behaviour{"trigger": slow(5, "success")}
	for i := 0; i < 8; i++ {
		id := "sib" + string(rune('a'+i))
		gatedSteps = append(gatedSteps, pstep(id, nil))
		gatedScript[id] = slow(30+20*i, "success")
	}
	gated := &Step{ID: "gated", Kind: "foreach", Workflow: "sub.yaml", Items: items("gated", 2), Parallelism: LitVal(IntLit(2)), Enabled: oexpr("sibh", "outputs", "success", "ok")}
	gatedSteps = append(gatedSteps, gated)
	gs := motifCase("gated-loop-closed-beside-finishing-siblings", gatedSteps,
		map[string]*Val{"success": MapVal([]string{"r"}, []*Val{oexpr("trigger", "outputs", "success", "s")})}, gatedScript, nil)
	gs.Subs["sub.yaml"] = sub
	out = append(out, gs)
	inner := &Program{Input: itemIn, Steps: []*Step{w}, Outputs: []*Output{{ID: "success", Val: MapVal([]string{"r"}, []*Val{oexpr("w", "outputs", "success", "v")})}}}
	outer := &Program{Input: itemIn, Steps: []*Step{{ID: "in", Kind: "foreach", Workflow: "inner.yaml", Items: &Val{K: "list", Vals: []*Val{
		MapVal([]string{"k", "n"}, []*Val{ExprVal(&Expr{K: "bin", Op: "+", Args: []*Expr{{K: "in", Field: "k"}, {K: "lit", Lit: StrLit(".in#a")}}}), ExprVal(&Expr{K: "in", Field: "n"})}),
		MapVal([]string{"k", "n"}, []*Val{ExprVal(&Expr{K: "bin", Op: "+", Args: []*Expr{{K: "in", Field: "k"}, {K: "lit", Lit: StrLit(".in#b")}}}), LitVal(IntLit(1))}),
	}}}}, Outputs: []*Output{{ID: "success", Val: MapVal([]string{"r"}, []*Val{oexpr("in", "outputs", "success")})}}}
	nf := motifCase("nested-foreach", []*Step{{ID: "loop", Kind: "foreach", Workflow: "outer.yaml", Items: items("loop", 2)}},
		map[string]*Val{"success": MapVal([]string{"r"}, []*Val{oexpr("loop", "outputs", "success")})},
		map[string]vplug.Behaviour{"loop#0.in#a": slow(10, "success"), "loop#1.in#b": slow(5, "success")}, nil)
	nf.Subs["outer.yaml"] = outer
	nf.Subs["inner.yaml"] = inner
	out = append(out, nf)
	return out
}

//go:build verif

package vcase

import (
	"fmt"
	"sort"
	"strings"
)

// Graph is a canonical node / typed edge listing ("id|kind", "from->to|type").
type Graph struct {
	Nodes []string
	Edges []string
	// SharedMultiRef counts owner nodes holding an expression with two or more distinct step-output
	// dependencies of which one is shared with another expression of the same owner (the shape in
	// which "edge already exists" occurs while further dependencies are still to be connected).
	SharedMultiRef int
}

type graphBuilder struct {
	nodes map[string]string
	edges map[string]string // "from->to" -> type (first wins, duplicates collapse)
	exprs map[string][][]string
}

func (g *graphBuilder) node(id, kind string) { g.nodes[id] = kind }
func (g *graphBuilder) edge(from, to, typ string) {
	k := from + "->" + to
	if _, ok := g.edges[k]; !ok {
		g.edges[k] = typ
	}
}

var pluginLifecycle = map[string]map[string]string{
	"deploy":    {"starting": "and", "deploy_failed": "completion-and", "closed": "completion-and"},
	"enabling":  {"starting": "and", "disabled": "and", "crashed": "completion-and", "closed": "completion-and"},
	"starting":  {"running": "and", "crashed": "completion-and", "closed": "completion-and"},
	"running":   {"outputs": "and", "crashed": "completion-and", "closed": "completion-and"},
	"cancelled": {"outputs": "completion-and", "crashed": "completion-and", "deploy_failed": "completion-and", "closed": "completion-and"},
}

var foreachLifecycle = map[string]map[string]string{
	"execute":  {"outputs": "and", "failed": "completion-and"},
	"enabling": {"execute": "and", "disabled": "and", "closed": "completion-and"},
}

// ExpectedGraph derives the dependency graph the workflow text implies (DESIGN appendix C).
func ExpectedGraph(p *Program) *Graph {
	g := &graphBuilder{nodes: map[string]string{}, edges: map[string]string{}, exprs: map[string][][]string{}}
	g.node("input", "input")
	for _, s := range p.Steps {
		prefix := "steps." + s.ID + "."
		var stages []string
		var outs map[string][]string
		var life map[string]map[string]string
		switch s.Kind {
		case "plugin", "":
			stages, outs, life = pluginStages, pluginOutputs, pluginLifecycle
		case "foreach":
			stages, outs, life = foreachStages, foreachOutputs, foreachLifecycle
		case "vstartfail":
			stages, outs, life = []string{"only"}, map[string][]string{"only": {"done"}}, nil
		}
		for _, st := range stages {
			g.node(prefix+st, "stepStage")
			for _, o := range outs[st] {
				g.node(prefix+st+"."+o, "stepStageOutput")
				g.edge(prefix+st, prefix+st+"."+o, "and")
			}
			for next, typ := range life[st] {
				g.edge(prefix+st, prefix+next, typ)
			}
		}
		owner := func(stage string, vals ...*Val) {
			for _, v := range vals {
				g.deps(v, prefix+stage, nil)
			}
		}
		switch s.Kind {
		case "plugin", "":
			owner("deploy", s.DeployTag)
			owner("enabling", s.Enabled)
			owner("starting", s.Input, s.WaitFor, s.ClosureTimeoutMs)
			owner("cancelled", s.StopIf)
		case "foreach":
			owner("enabling", s.Enabled)
			owner("execute", s.Items, s.Parallelism, s.WaitFor)
		}
	}
	for _, o := range p.Outputs {
		g.node("outputs."+o.ID, "output")
		g.deps(o.Val, "outputs."+o.ID, nil)
	}
	out := &Graph{}
	for _, lists := range g.exprs {
		shared := false
		for i, l := range lists {
			if len(l) < 2 {
				continue
			}
			for j, o := range lists {
				if i == j {
					continue
				}
				for _, a := range l {
					for _, b := range o {
						if a == b {
							shared = true
						}
					}
				}
			}
		}
		if shared {
			out.SharedMultiRef++
		}
	}
	for id, k := range g.nodes {
		out.Nodes = append(out.Nodes, id+"|"+k)
	}
	for e, t := range g.edges {
		out.Edges = append(out.Edges, e+"|"+t)
	}
	sort.Strings(out.Nodes)
	sort.Strings(out.Edges)
	return out
}

func (g *graphBuilder) exprDeps(e *Expr, owner string) {
	var refs []Ref
	e.Refs(&refs)
	var ids []string
	seen := map[string]bool{}
	for _, r := range refs {
		g.edge(r.NodeID(), owner, "and")
		if id := r.NodeID(); id != "input" && !seen[id] {
			seen[id] = true
			ids = append(ids, id)
		}
	}
	if g.exprs != nil && len(ids) > 0 {
		g.exprs[owner] = append(g.exprs[owner], ids)
	}
}

func (g *graphBuilder) deps(v *Val, owner string, path []string) {
	if v == nil {
		return
	}
	switch v.K {
	case "lit", "rawscalar":
	case "expr":
		g.exprDeps(v.Expr, owner)
	case "map":
		for i, k := range v.Keys {
			g.deps(v.Vals[i], owner, append(append([]string{}, path...), k))
		}
	case "list":
		for i, c := range v.Vals {
			g.deps(c, owner, append(append([]string{}, path...), fmt.Sprint(i)))
		}
	case "oneof", "ordisabled":
		group := owner + "." + strings.Join(path, ".")
		g.node(group, "dependencyGroup")
		g.edge(group, owner, "and")
		keys, vals := v.Keys, v.Vals
		if v.K == "ordisabled" {
			keys = []string{"enabled", "disabled"}
			vals = []*Val{ExprVal(v.Expr), ExprVal(&Expr{K: "out", Step: v.Expr.Step, Stage: "disabled", Output: "output"})}
		}
		for i, k := range keys {
			opt := group + "." + k
			g.node(opt, "dependencyGroup")
			g.edge(opt, group, "or")
			g.deps(vals[i], opt, nil)
		}
	case "waitopt", "softopt":
		group := owner + "." + strings.Join(path, ".")
		g.node(group, "dependencyGroup")
		typ := "optional"
		if v.K == "waitopt" {
			typ = "completion-and"
		}
		g.edge(group, owner, typ)
		g.exprDeps(v.Expr, group)
	}
}

// DiffGraphs returns a description of the differences ("" if equal).
func DiffGraphs(expN, expE, actN, actE []string) string {
	var d []string
	diff := func(what string, exp, act []string) {
		es, as := map[string]bool{}, map[string]bool{}
		for _, x := range exp {
			es[x] = true
		}
		for _, x := range act {
			as[x] = true
		}
		for _, x := range exp {
			if !as[x] {
				d = append(d, "missing "+what+" "+x)
			}
		}
		for _, x := range act {
			if !es[x] {
				d = append(d, "extra "+what+" "+x)
			}
		}
	}
	diff("node", expN, actN)
	diff("edge", expE, actE)
	if len(d) > 8 {
		d = append(d[:8], fmt.Sprintf("... and %d more", len(d)-8))
	}
	return strings.Join(d, "; ")
}

//go:build verif

// Package vcase holds the case data model (workflow program AST, behaviour script, schedule plan),
// its YAML renderer, the rapid generators and the reference model used as oracle.
// Nothing here calls the engine's workflow, dgraph or expressions packages.
package vcase

import (
	"encoding/json"
	"fmt"
	"hash/fnv"
	"sort"
	"strconv"
	"strings"

	"go.flow.arcalot.io/engine/internal/verif/vplug"
	"go.flow.arcalot.io/engine/internal/verif/vrun"
	"go.flow.arcalot.io/engine/internal/verif/vsched"
)

// Lit is a typed literal.
type Lit struct {
	T string  `json:"t"` // int | float | string | bool
	I int64   `json:"i,omitempty"`
	F float64 `json:"f,omitempty"`
	S string  `json:"s,omitempty"`
	B bool    `json:"b,omitempty"`
}

// Value returns the Go value of the literal.
func (l *Lit) Value() any {
	switch l.T {
	case "int":
		return l.I
	case "float":
		return l.F
	case "string":
		return l.S
	case "bool":
		return l.B
	}
	panic("bad literal type " + l.T)
}

func IntLit(i int64) *Lit     { return &Lit{T: "int", I: i} }
func StrLit(s string) *Lit    { return &Lit{T: "string", S: s} }
func BoolLit(b bool) *Lit     { return &Lit{T: "bool", B: b} }
func FloatLit(f float64) *Lit { return &Lit{T: "float", F: f} }

// Expr is an expression of the generated grammar G.
type Expr struct {
	K string `json:"k"` // in | out | stage | lit | call | bin | idx | raw
	// in: $.input.<Field>[.Path...]
	Field string `json:"field,omitempty"`
	// out: $.steps.<Step>.<Stage>.<Output>[.Path...]; stage: $.steps.<Step>.<Stage>
	Step   string   `json:"step,omitempty"`
	Stage  string   `json:"stage,omitempty"`
	Output string   `json:"output,omitempty"`
	Path   []string `json:"path,omitempty"`
	Lit    *Lit     `json:"lit,omitempty"`
	Fn     string   `json:"fn,omitempty"`
	Args   []*Expr  `json:"args,omitempty"`
	Op     string   `json:"op,omitempty"`
	Index  int64    `json:"index,omitempty"`
	Raw    string   `json:"raw,omitempty"` // raw: verbatim text (corruptions)
}

// Text renders the expression in the engine's expression language.
func (e *Expr) Text() string {
	switch e.K {
	case "in":
		s := "$.input." + e.Field
		for _, p := range e.Path {
			s += "." + p
		}
		return s
	case "out":
		s := "$.steps." + e.Step + "." + e.Stage + "." + e.Output
		for _, p := range e.Path {
			s += "." + p
		}
		return s
	case "stage":
		return "$.steps." + e.Step + "." + e.Stage
	case "lit":
		switch e.Lit.T {
		case "int":
			if e.Lit.I < 0 {
				return "(0 - " + strconv.FormatInt(-e.Lit.I, 10) + ")"
			}
			return strconv.FormatInt(e.Lit.I, 10)
		case "float":
			s := strconv.FormatFloat(e.Lit.F, 'f', -1, 64)
			if !strings.Contains(s, ".") {
				s += ".0"
			}
			if e.Lit.F < 0 {
				return "(0.0 - " + s[1:] + ")"
			}
			return s
		case "string":
			return strconv.Quote(e.Lit.S)
		case "bool":
			if e.Lit.B {
				return "true"
			}
			return "false"
		}
	case "call":
		args := make([]string, len(e.Args))
		for i, a := range e.Args {
			args[i] = a.Text()
		}
		return e.Fn + "(" + strings.Join(args, ", ") + ")"
	case "bin":
		return "(" + e.Args[0].Text() + " " + e.Op + " " + e.Args[1].Text() + ")"
	case "idx":
		return e.Args[0].Text() + "[" + strconv.FormatInt(e.Index, 10) + "]"
	case "raw":
		return e.Raw
	}
	panic("bad expr kind " + e.K)
}

// Refs lists the (step, stage, output) references of an expression; Output "" = whole stage.
// inputRef reports a reference to the workflow input.
func (e *Expr) Refs(out *[]Ref) {
	switch e.K {
	case "in":
		*out = append(*out, Ref{Input: true})
	case "out":
		*out = append(*out, Ref{Step: e.Step, Stage: e.Stage, Output: e.Output})
	case "stage":
		*out = append(*out, Ref{Step: e.Step, Stage: e.Stage})
	}
	for _, a := range e.Args {
		a.Refs(out)
	}
}

// Ref is a dependency reference.
type Ref struct {
	Input  bool
	Step   string
	Stage  string
	Output string
}

// NodeID is the DAG node the reference points at.
func (r Ref) NodeID() string {
	if r.Input {
		return "input"
	}
	if r.Output == "" {
		return "steps." + r.Step + "." + r.Stage
	}
	return "steps." + r.Step + "." + r.Stage + "." + r.Output
}

// Val is a value tree as written in a step input field or a workflow output.
type Val struct {
	K    string   `json:"k"` // lit | expr | map | list | oneof | ordisabled | waitopt | softopt
	Lit  *Lit     `json:"lit,omitempty"`
	Expr *Expr    `json:"expr,omitempty"`
	Keys []string `json:"keys,omitempty"`
	Vals []*Val   `json:"vals,omitempty"` // map values / list items / oneof option values (Keys = option ids)
	Disc string   `json:"disc,omitempty"`
}

func LitVal(l *Lit) *Val   { return &Val{K: "lit", Lit: l} }
func ExprVal(e *Expr) *Val { return &Val{K: "expr", Expr: e} }
func MapVal(keys []string, vals []*Val) *Val {
	return &Val{K: "map", Keys: keys, Vals: vals}
}

// Get returns the value under key of a map value.
func (v *Val) Get(key string) *Val {
	if v == nil || v.K != "map" {
		return nil
	}
	for i, k := range v.Keys {
		if k == key {
			return v.Vals[i]
		}
	}
	return nil
}

// Set sets a key of a map value.
func (v *Val) Set(key string, x *Val) {
	for i, k := range v.Keys {
		if k == key {
			v.Vals[i] = x
			return
		}
	}
	v.Keys = append(v.Keys, key)
	v.Vals = append(v.Vals, x)
}

// Walk visits every Val in the tree (pre-order).
func (v *Val) Walk(f func(*Val)) {
	if v == nil {
		return
	}
	f(v)
	for _, c := range v.Vals {
		c.Walk(f)
	}
}

// InField is a field of the workflow input schema.
type InField struct {
	Name     string `json:"name"`
	Type     string `json:"type"` // int | string | bool | float | list_int | map_int | obj
	Required bool   `json:"required"`
	Default  *Lit   `json:"default,omitempty"`
	// Constraints (C19)
	Min *int64 `json:"min,omitempty"`
	Max *int64 `json:"max,omitempty"`
	// Sub-fields for Type obj
	Fields []InField `json:"fields,omitempty"`
}

// Step is one workflow step.
type Step struct {
	ID   string `json:"id"`
	Kind string `json:"kind"` // plugin | foreach | vstartfail
	Op   string `json:"op,omitempty"`
	Src  string `json:"src,omitempty"`
	// OmitStep leaves out the `step:` key (invalid when the plugin has several steps).
	OmitStep bool `json:"omit_step,omitempty"`
	Input    *Val `json:"input,omitempty"`
	WaitFor  *Val `json:"wait_for,omitempty"`
	Enabled  *Val `json:"enabled,omitempty"`
	StopIf   *Val `json:"stop_if,omitempty"`
	// DeployTag renders deploy: {deployer_name: vdep, tag: <val>}
	DeployTag        *Val `json:"deploy_tag,omitempty"`
	ClosureTimeoutMs *Val `json:"closure_timeout_ms,omitempty"`
	// foreach
	Items       *Val   `json:"items,omitempty"`
	Parallelism *Val   `json:"parallelism,omitempty"`
	Workflow    string `json:"workflow,omitempty"`
	// WorkflowSpelling, when set, is how the reference to the file Workflow is written in the text
	// (e.g. "./leaf.yaml", "sub//leaf.yaml").
	WorkflowSpelling string `json:"workflow_spelling,omitempty"`
	// vstartfail
	Fail bool `json:"fail,omitempty"`
	// Extra raw key/values rendered verbatim (corruptions).
	Extra map[string]string `json:"extra,omitempty"`
}

// Output is one workflow output.
type Output struct {
	ID  string `json:"id"`
	Val *Val   `json:"val"`
}

// Program is a workflow.
type Program struct {
	Version string    `json:"version,omitempty"`
	Input   []InField `json:"input"`
	Steps   []*Step   `json:"steps"`
	Outputs []*Output `json:"outputs"`
	// LegacyOutput renders `output:` instead of `outputs:` (single output "success").
	LegacyOutput bool `json:"legacy_output,omitempty"`
	// OutputSchemaErr renders an explicit outputSchema with these error flags (C20).
	OutputSchemaErr map[string]bool `json:"output_schema_err,omitempty"`
}

// StepByID finds a step.
func (p *Program) StepByID(id string) *Step {
	for _, s := range p.Steps {
		if s.ID == id {
			return s
		}
	}
	return nil
}

// Case is the replayable unit: everything a check needs to re-run one generated case.
type Case struct {
	Prop     string              `json:"prop"`
	Profile  string              `json:"profile,omitempty"`
	Main     *Program            `json:"main"`
	Subs     map[string]*Program `json:"subs,omitempty"`
	InputDoc map[string]any      `json:"input_doc"`
	// PriorDocs are input documents run on the same prepared workflow before the observed run.
	PriorDocs  []map[string]any `json:"prior_docs,omitempty"`
	Script     vplug.Script     `json:"script"`
	Plan       vsched.Plan      `json:"plan,omitempty"`
	Triggers   []vrun.Trigger   `json:"triggers,omitempty"`
	WatchdogMs int              `json:"watchdog_ms,omitempty"`
	Labels     []string         `json:"labels,omitempty"`
	Note       string           `json:"note,omitempty"`
	// Extra carries property-specific data (corruption description, transformations...).
	Extra map[string]any `json:"extra,omitempty"`
}

// Hash is the FNV-64 of the canonical JSON of a value.
func Hash(v any) uint64 {
	b, err := json.Marshal(v)
	if err != nil {
		panic(err)
	}
	h := fnv.New64a()
	_, _ = h.Write(b)
	return h.Sum64()
}

// RefSpellings maps every non-canonical spelling of a sub-workflow reference to the file it names.
func (c *Case) RefSpellings() map[string]string {
	out := map[string]string{}
	progs := []*Program{c.Main}
	for _, p := range c.Subs {
		progs = append(progs, p)
	}
	for _, p := range progs {
		if p == nil {
			continue
		}
		for _, s := range p.Steps {
			if s.WorkflowSpelling != "" && s.WorkflowSpelling != s.Workflow {
				out[s.WorkflowSpelling] = s.Workflow
			}
		}
	}
	return out
}

// Request renders the case into a worker request.
func (c *Case) Request(kind string) *vrun.Request {
	files := map[string]string{}
	for name, p := range c.Subs {
		files[name] = RenderYAML(p)
	}
	for spelling, name := range c.RefSpellings() {
		files[spelling] = files[name] // direct Prepare looks files up by the reference as written
	}
	var prior []any
	for _, d := range c.PriorDocs {
		prior = append(prior, d)
	}
	return &vrun.Request{
		PriorInputs: prior,
		Kind:        kind,
		Main:        RenderYAML(c.Main),
		Files:       files,
		Input:       c.InputDoc,
		Script:      c.Script,
		Plan:        c.Plan,
		Triggers:    c.Triggers,
		WatchdogMs:  c.WatchdogMs,
	}
}

func sortedKeys[V any](m map[string]V) []string {
	keys := make([]string, 0, len(m))
	for k := range m {
		keys = append(keys, k)
	}
	sort.Strings(keys)
	return keys
}

var _ = fmt.Sprint

//go:build verif

package vcase

import (
	"strings"
)

// Permute returns a copy of the program with steps, outputs, input fields, map keys and one-of
// options reordered according to perm (a function returning a permutation of n elements).
func Permute(p *Program, perm func(n int) []int) *Program {
	q := cloneProgram(p)
	ps := perm(len(q.Steps))
	steps := make([]*Step, len(q.Steps))
	for i, j := range ps {
		steps[i] = q.Steps[j]
	}
	q.Steps = steps
	po := perm(len(q.Outputs))
	outs := make([]*Output, len(q.Outputs))
	for i, j := range po {
		outs[i] = q.Outputs[j]
	}
	q.Outputs = outs
	pi := perm(len(q.Input))
	in := make([]InField, len(q.Input))
	for i, j := range pi {
		in[i] = q.Input[j]
	}
	q.Input = in
	var permVal func(v *Val)
	permVal = func(v *Val) {
		if v == nil {
			return
		}
		if (v.K == "map" || v.K == "oneof") && len(v.Keys) > 1 {
			pk := perm(len(v.Keys))
			keys := make([]string, len(v.Keys))
			vals := make([]*Val, len(v.Vals))
			for i, j := range pk {
				keys[i], vals[i] = v.Keys[j], v.Vals[j]
			}
			v.Keys, v.Vals = keys, vals
		}
		for _, c := range v.Vals {
			permVal(c)
		}
	}
	for _, s := range q.Steps {
		for _, v := range []*Val{s.Input, s.WaitFor, s.Enabled, s.StopIf, s.DeployTag, s.Items, s.Parallelism} {
			permVal(v)
		}
	}
	for _, o := range q.Outputs {
		permVal(o.Val)
	}
	return q
}

// RenameSteps returns a copy with every step id mapped through names (ids and references).
func RenameSteps(p *Program, names map[string]string) *Program {
	q := cloneProgram(p)
	var re func(e *Expr)
	re = func(e *Expr) {
		if e == nil {
			return
		}
		if e.Step != "" {
			if n, ok := names[e.Step]; ok {
				e.Step = n
			}
		}
		for _, a := range e.Args {
			re(a)
		}
	}
	for _, s := range q.Steps {
		if n, ok := names[s.ID]; ok {
			if s.Src == "" {
				s.Src = "vp://" + s.ID // keep the plugin source (and thereby the script) stable
			}
			s.ID = n
		}
		for _, v := range []*Val{s.Input, s.WaitFor, s.Enabled, s.StopIf, s.DeployTag, s.Items, s.Parallelism} {
			v.Walk(func(x *Val) { re(x.Expr) })
		}
	}
	for _, o := range q.Outputs {
		o.Val.Walk(func(x *Val) { re(x.Expr) })
	}
	return q
}

// MapBack replaces the new step names by the old ones in graph listings and JSON-ish strings.
func MapBack(items []string, names map[string]string) []string {
	out := make([]string, len(items))
	for i, it := range items {
		for old, n := range names {
			it = strings.ReplaceAll(it, "steps."+n+".", "steps."+old+".")
		}
		out[i] = it
	}
	return out
}

//go:build verif

// Package vsched is the runtime of the schedule points inserted into engine sources by
// tools/instr (only in the "sched" binaries). Without an installed plan P is a no-op.
package vsched

import (
	"sync"
	"sync/atomic"
	"time"
)

// SitePlan delays a site.
type SitePlan struct {
	DelayMs int `json:"delay_ms"`
	// First: delay only the first N hits (0 = all hits).
	First int `json:"first,omitempty"`
	// Nth: delay exactly the N-th hit (1-based; 0 = unused).
	Nth int `json:"nth,omitempty"`
	// AfterMs: delay only hits that happen at least this long after Install (0 = unused).
	AfterMs int `json:"after_ms,omitempty"`
}

// Plan maps site name to its delay.
type Plan map[string]SitePlan

type state struct {
	plan Plan
	t0   time.Time
	mu   sync.Mutex
	hits map[string]int
	all  bool // count hits on every site (for site discovery)
}

var cur atomic.Pointer[state]

var hooks atomic.Pointer[map[string]func()]

// SetHooks installs callbacks run (synchronously) whenever the named sites are hit. A plan
// (possibly empty) must be installed for hooks to fire.
func SetHooks(h map[string]func()) {
	if h == nil {
		hooks.Store(nil)
		return
	}
	hooks.Store(&h)
}

// Install activates a plan (nil deactivates).
func Install(p Plan) {
	if p == nil {
		cur.Store(nil)
		hooks.Store(nil)
		return
	}
	_, all := p["*"]
	cur.Store(&state{plan: p, t0: time.Now(), hits: map[string]int{}, all: all})
}

// Hits returns the number of hits per planned site since Install.
func Hits() map[string]int {
	s := cur.Load()
	if s == nil {
		return nil
	}
	s.mu.Lock()
	defer s.mu.Unlock()
	out := make(map[string]int, len(s.hits))
	for k, v := range s.hits {
		out[k] = v
	}
	return out
}

// P is a schedule point.
func P(site string) {
	s := cur.Load()
	if s == nil {
		return
	}
	if h := hooks.Load(); h != nil {
		if f, ok := (*h)[site]; ok {
			f()
		}
	}
	sp, ok := s.plan[site]
	if !ok && !s.all {
		return
	}
	s.mu.Lock()
	s.hits[site]++
	n := s.hits[site]
	s.mu.Unlock()
	if !ok || sp.DelayMs <= 0 {
		return
	}
	if sp.Nth > 0 && n != sp.Nth {
		return
	}
	if sp.First > 0 && n > sp.First {
		return
	}
	if sp.AfterMs > 0 && time.Since(s.t0) < time.Duration(sp.AfterMs)*time.Millisecond {
		return
	}
	time.Sleep(time.Duration(sp.DelayMs) * time.Millisecond)
}

//go:build verif

package vrun

import (
	"context"
	"fmt"
	"reflect"
	"sync"
	"time"

	"go.flow.arcalot.io/engine/internal/verif/vplug"
	"go.flow.arcalot.io/engine/internal/verif/vsched"
	"go.flow.arcalot.io/engine/workflow"
)

// RunSpec is one run of a prepared workflow inside a MultiRequest.
type RunSpec struct {
	ID            string `json:"id"` // run key; the workflow input carries it so that plugin keys are run specific
	Input         any    `json:"input"`
	CancelAfterMs int    `json:"cancel_after_ms,omitempty"` // 0 = never cancelled
	UseTwin       bool   `json:"use_twin,omitempty"`        // run on the second workflow prepared from the same text
	StartDelayMs  int    `json:"start_delay_ms,omitempty"`
}

// MultiRequest prepares one text (twice) and executes rounds of runs; runs of a round start together.
type MultiRequest struct {
	Main   string            `json:"main"`
	Files  map[string]string `json:"files,omitempty"`
	Script vplug.Script      `json:"script"`
	Rounds [][]RunSpec       `json:"rounds"`
	// RePrepareBetween prepares the same text a third time between rounds (and discards it).
	RePrepareBetween bool `json:"re_prepare_between,omitempty"`
	// SharedParsed: the workflow text is parsed once and every preparation (the workflow, its twin,
	// the ones between rounds) is made by one executor from that parsed object.
	SharedParsed bool `json:"shared_parsed,omitempty"`
	// ConcurrentPrepares prepares the text this many times at the same time first (C17).
	ConcurrentPrepares int         `json:"concurrent_prepares,omitempty"`
	Plan               vsched.Plan `json:"plan,omitempty"`
	WatchdogMs         int         `json:"watchdog_ms,omitempty"`
}

// RunResult is the outcome of one run.
type RunResult struct {
	ID        string    `json:"id"`
	Returned  *Returned `json:"returned,omitempty"`
	Panic     string    `json:"panic,omitempty"`
	TStartUs  int64     `json:"t_start_us"`
	TEndUs    int64     `json:"t_end_us"`
	Cancelled bool      `json:"cancelled,omitempty"`
}

// MultiAnswer is the reply to a MultiRequest.
type MultiAnswer struct {
	PrepareErr   string        `json:"prepare_err,omitempty"`
	PreparePanic string        `json:"prepare_panic,omitempty"`
	Rounds       [][]RunResult `json:"rounds,omitempty"`
	Hang         []string      `json:"hang,omitempty"`
	DAGChanged   string        `json:"dag_changed,omitempty"`
	Log          []vplug.Event `json:"log,omitempty"`
	Deploys      int64         `json:"deploys"`
	Closes       int64         `json:"closes"`
	Leaks        []Leak        `json:"leaks,omitempty"`
	ProcessDeath string        `json:"process_death,omitempty"`
}

// RunMulti executes a MultiRequest.
func RunMulti(req *MultiRequest) *MultiAnswer {
	ans := &MultiAnswer{}
	env, err := NewEnv(req.Script, false)
	if err != nil {
		ans.PrepareErr = "harness: " + err.Error()
		return ans
	}
	w := env.World
	plan := req.Plan
	if plan == nil {
		plan = vsched.Plan{}
	}
	vsched.Install(plan)
	defer vsched.Install(nil)
	before := goroutineIDs()
	if req.ConcurrentPrepares > 1 {
		var pwg sync.WaitGroup
		for i := 0; i < req.ConcurrentPrepares; i++ {
			pwg.Add(1)
			go func() {
				defer pwg.Done()
				_, _, _ = env.Prepare(req.Main, req.Files)
			}()
		}
		pwg.Wait()
	}
	prepare := func() (workflow.ExecutableWorkflow, error, string) { return env.Prepare(req.Main, req.Files) }
	if req.SharedParsed {
		prepare = env.SharedPreparer(req.Main, req.Files)
	}
	wf, perr, ppanic := prepare()
	if ppanic != "" || perr != nil {
		ans.PreparePanic = ppanic
		if perr != nil {
			ans.PrepareErr = perr.Error()
		}
		return ans
	}
	twin, perr, ppanic := prepare()
	if ppanic != "" || perr != nil {
		ans.PreparePanic = ppanic
		if perr != nil {
			ans.PrepareErr = "twin: " + perr.Error()
		}
		return ans
	}
	dag0, twin0 := DumpDAG(wf), DumpDAG(twin)
	w.SetPhase("run")

	var gids sync.Map // goroutine id -> run id
	vsched.SetHooks(map[string]func(){
		"workflow/workflow.go:loopState.terminateAllSteps#0:entry": func() {
			if id, ok := gids.Load(goid()); ok {
				w.Log("shutdown-begin", id.(string), nil)
			}
		},
	})
	wd := time.Duration(req.WatchdogMs) * time.Millisecond
	if wd <= 0 {
		wd = 30 * time.Second
	}
	deadline := time.After(wd)
	for _, round := range req.Rounds {
		results := make([]RunResult, len(round))
		var wg sync.WaitGroup
		for i, spec := range round {
			i, spec := i, spec
			wg.Add(1)
			go func() {
				defer wg.Done()
				if spec.StartDelayMs > 0 {
					time.Sleep(time.Duration(spec.StartDelayMs) * time.Millisecond)
				}
				gids.Store(goid(), spec.ID)
				defer gids.Delete(goid())
				r := RunResult{ID: spec.ID, TStartUs: w.NowUs()}
				ctx, cancel := context.WithCancel(context.Background())
				defer cancel()
				if spec.CancelAfterMs > 0 {
					r.Cancelled = true
					t := time.AfterFunc(time.Duration(spec.CancelAfterMs)*time.Millisecond, cancel)
					defer t.Stop()
				}
				target := wf
				if spec.UseTwin {
					target = twin
				}
				func() {
					defer func() {
						if rec := recover(); rec != nil {
							r.Panic = fmt.Sprintf("%v\n%s", rec, shortStack())
						}
					}()
					id, data, err := target.Execute(ctx, spec.Input)
					r.Returned = &Returned{OutputID: id}
					if err != nil {
						r.Returned.Err = err.Error()
					} else {
						r.Returned.Data = Normalize(data)
					}
				}()
				r.TEndUs = w.NowUs()
				results[i] = r
			}()
		}
		done := make(chan struct{})
		go func() { wg.Wait(); close(done) }()
		select {
		case <-done:
		case <-deadline:
			ans.Hang = []string{dumpGoroutines()}
			ans.Log = w.Events()
			return ans
		}
		ans.Rounds = append(ans.Rounds, results)
		if req.RePrepareBetween {
			w.SetPhase("prepare") // no run is in progress between rounds
			_, perr, ppanic := prepare()
			w.SetPhase("run")
			if perr != nil || ppanic != "" {
				ans.PrepareErr = fmt.Sprintf("re-preparing the same text failed: %v %s", perr, ppanic)
				return ans
			}
		}
	}
	vsched.SetHooks(nil)
	if d := diffDump(dag0, DumpDAG(wf)); d != "" {
		ans.DAGChanged = "prepared workflow: " + d
	} else if d := diffDump(twin0, DumpDAG(twin)); d != "" {
		ans.DAGChanged = "twin: " + d
	}
	ans.Deploys, ans.Closes = w.Deploys.Load(), w.Closes.Load()
	ans.Leaks = leaks(before, 2*time.Second)
	ans.Log = w.Events()
	return ans
}

func diffDump(a, b *DAGDump) string {
	if reflect.DeepEqual(a, b) {
		return ""
	}
	return fmt.Sprintf("DAG differs after the runs (%d/%d nodes, %d/%d edges)", len(a.Nodes), len(b.Nodes), len(a.Edges), len(b.Edges))
}

var _ workflow.ExecutableWorkflow

//go:build verif

package vrun

import (
	"fmt"
	"math"
	"os"
	"path/filepath"
	"reflect"
	"sort"
	"strconv"

	"go.flow.arcalot.io/engine/internal/builtinfunctions"
	"go.flow.arcalot.io/pluginsdk/schema"
)

// FArg is a typed argument / result of a built-in function call (floats travel as bit patterns).
type FArg struct {
	T string          `json:"t"` // int | float | string | bool | list | map | nil
	I int64           `json:"i,omitempty"`
	F string          `json:"f,omitempty"` // hex bits of the float64
	S string          `json:"s,omitempty"`
	B bool            `json:"b,omitempty"`
	L []FArg          `json:"l,omitempty"`
	M map[string]FArg `json:"m,omitempty"`
}

// FloatArg encodes a float.
func FloatArg(f float64) FArg {
	return FArg{T: "float", F: strconv.FormatUint(math.Float64bits(f), 16)}
}

// Float decodes a float argument.
func (a FArg) Float() float64 {
	u, _ := strconv.ParseUint(a.F, 16, 64)
	return math.Float64frombits(u)
}

// Value converts to the Go value handed to the function.
func (a FArg) Value() any {
	switch a.T {
	case "int":
		return a.I
	case "float":
		return a.Float()
	case "string":
		return a.S
	case "bool":
		return a.B
	case "list":
		out := make([]any, len(a.L))
		for i, e := range a.L {
			out[i] = e.Value()
		}
		return out
	case "map":
		out := map[string]any{}
		for k, e := range a.M {
			out[k] = e.Value()
		}
		return out
	}
	return nil
}

// EncodeF converts a Go value to its FArg form.
func EncodeF(v any) FArg {
	switch x := v.(type) {
	case nil:
		return FArg{T: "nil"}
	case int64:
		return FArg{T: "int", I: x}
	case int:
		return FArg{T: "int", I: int64(x)}
	case float64:
		return FloatArg(x)
	case string:
		return FArg{T: "string", S: x}
	case bool:
		return FArg{T: "bool", B: x}
	}
	rv := reflect.ValueOf(v)
	switch rv.Kind() {
	case reflect.Slice:
		out := FArg{T: "list", L: make([]FArg, rv.Len())}
		for i := 0; i < rv.Len(); i++ {
			out.L[i] = EncodeF(rv.Index(i).Interface())
		}
		return out
	case reflect.Map:
		out := FArg{T: "map", M: map[string]FArg{}}
		for _, k := range rv.MapKeys() {
			out.M[fmt.Sprint(k.Interface())] = EncodeF(rv.MapIndex(k).Interface())
		}
		return out
	}
	return FArg{T: "string", S: fmt.Sprintf("$unknown:%T:%v", v, v)}
}

// FuncRequest asks the worker to call a built-in function.
type FuncRequest struct {
	Fn   string `json:"fn"`
	Args []FArg `json:"args"`
	// Typed (bindConstants): derive the argument types from the values (TypeOfFArg), ask the
	// function for its result type for exactly those types and validate the result against it.
	Typed bool `json:"typed,omitempty"`
}

// TypeOfFArg derives a schema type from a value: a map with a "$id" entry is an object with that id
// whose properties are the other entries (all required), another map is map[string]<type of its
// first value by key order>, a list is a list of its first element's type (strings when empty).
func TypeOfFArg(a FArg) schema.Type {
	switch a.T {
	case "int":
		return schema.NewIntSchema(nil, nil, nil)
	case "float":
		return schema.NewFloatSchema(nil, nil, nil)
	case "bool":
		return schema.NewBoolSchema()
	case "list":
		if len(a.L) == 0 {
			return schema.NewListSchema(schema.NewStringSchema(nil, nil, nil), nil, nil)
		}
		return schema.NewListSchema(TypeOfFArg(a.L[0]), nil, nil)
	case "map":
		keys := make([]string, 0, len(a.M))
		for k := range a.M {
			if k != "$id" {
				keys = append(keys, k)
			}
		}
		sort.Strings(keys)
		if id, isObj := a.M["$id"]; isObj {
			props := map[string]*schema.PropertySchema{}
			for _, k := range keys {
				props[k] = schema.NewPropertySchema(TypeOfFArg(a.M[k]), nil, true, nil, nil, nil, nil, nil)
			}
			return schema.NewObjectSchema(id.S, props)
		}
		var vt schema.Type = schema.NewStringSchema(nil, nil, nil)
		if len(keys) > 0 {
			vt = TypeOfFArg(a.M[keys[0]])
		}
		return schema.NewMapSchema(schema.NewStringSchema(nil, nil, nil), vt, nil, nil)
	}
	return schema.NewStringSchema(nil, nil, nil)
}

// typedValue is Value without the "$id" markers.
func typedValue(a FArg) any {
	switch a.T {
	case "list":
		out := make([]any, len(a.L))
		for i, e := range a.L {
			out[i] = typedValue(e)
		}
		return out
	case "map":
		out := map[string]any{}
		for k, e := range a.M {
			if k != "$id" {
				out[k] = typedValue(e)
			}
		}
		return out
	}
	return a.Value()
}

// FuncAnswer is the worker's reply.
type FuncAnswer struct {
	Unknown     bool   `json:"unknown,omitempty"`
	OutOfDomain string `json:"out_of_domain,omitempty"` // an argument does not satisfy the declared parameter schema
	Panic       string `json:"panic,omitempty"`
	Err         string `json:"err,omitempty"`
	Result      *FArg  `json:"result,omitempty"`
	// TypeErr: the result does not validate against the function's declared / derived output type.
	TypeErr string `json:"type_err,omitempty"`
	// NonDeterministic: a second call with the same arguments answered differently.
	NonDeterministic string `json:"non_deterministic,omitempty"`
	ProcessDeath     string `json:"process_death,omitempty"`
}

var scratchReady bool

// ScratchDir is where readFile cases find their files.
func ScratchDir() string {
	return filepath.Join(os.TempDir(), fmt.Sprintf("verif-c18-%d", os.Getpid()))
}

func prepareScratch() {
	if scratchReady {
		return
	}
	_ = os.MkdirAll(ScratchDir(), 0o755)
	_ = os.WriteFile(filepath.Join(ScratchDir(), "present.txt"), []byte("file content ü\n"), 0o644)
	_ = os.Setenv("VERIF_C18_SET", "value-from-env")
	_ = os.Unsetenv("VERIF_C18_UNSET")
	scratchReady = true
}

func callOnce(fn schema.CallableFunction, args []any) (res any, err error, panicked string) {
	defer func() {
		if r := recover(); r != nil {
			panicked = fmt.Sprint(r)
		}
	}()
	res, err = fn.Call(args)
	return res, err, ""
}

// CallFunc executes one function call request.
func CallFunc(req *FuncRequest) *FuncAnswer {
	prepareScratch()
	ans := &FuncAnswer{}
	fn, ok := builtinfunctions.GetFunctions()[req.Fn]
	if !ok {
		ans.Unknown = true
		return ans
	}
	params := fn.Parameters()
	if len(params) != len(req.Args) {
		ans.OutOfDomain = fmt.Sprintf("arity %d != %d", len(req.Args), len(params))
		return ans
	}
	if req.Typed {
		return callTyped(fn, req)
	}
	args := make([]any, len(req.Args))
	for i, a := range req.Args {
		args[i] = a.Value()
		if req.Fn == "readFile" && i == 0 && a.S != "" && !filepath.IsAbs(a.S) {
			args[i] = filepath.Join(ScratchDir(), a.S)
		}
		if err := params[i].Validate(args[i]); err != nil {
			ans.OutOfDomain = fmt.Sprintf("argument %d: %v", i, err)
			return ans
		}
	}
	res, err, p := callOnce(fn, args)
	if p != "" {
		ans.Panic = p
		return ans
	}
	res2, err2, p2 := callOnce(fn, args)
	if p2 != "" {
		ans.Panic = "second call: " + p2
		return ans
	}
	if (err == nil) != (err2 == nil) {
		ans.NonDeterministic = fmt.Sprintf("first error %v, second error %v", err, err2)
	}
	if err != nil {
		ans.Err = err.Error()
		return ans
	}
	enc := EncodeF(res)
	ans.Result = &enc
	if !reflect.DeepEqual(enc, EncodeF(res2)) {
		ans.NonDeterministic = fmt.Sprintf("%v vs %v", res, res2)
	}
	outType, _, terr := fn.Output(params)
	if terr != nil {
		ans.TypeErr = "Output(): " + terr.Error()
		return ans
	}
	if outType != nil {
		if verr := outType.Validate(res); verr != nil {
			ans.TypeErr = verr.Error()
		}
	}
	return ans
}

// callTyped: the result of a function with a derived result type must conform to the type derived
// for exactly the argument types of this call, whatever was derived earlier in the process.
func callTyped(fn schema.CallableFunction, req *FuncRequest) *FuncAnswer {
	ans := &FuncAnswer{}
	types := make([]schema.Type, len(req.Args))
	args := make([]any, len(req.Args))
	for i, a := range req.Args {
		types[i] = TypeOfFArg(a)
		args[i] = typedValue(a)
		if err := types[i].Validate(args[i]); err != nil {
			ans.OutOfDomain = fmt.Sprintf("argument %d does not conform to its own derived type: %v", i, err)
			return ans
		}
	}
	res, err, p := callOnce(fn, args)
	if p != "" {
		ans.Panic = p
		return ans
	}
	if err != nil {
		ans.Err = err.Error()
		return ans
	}
	enc := EncodeF(res)
	ans.Result = &enc
	var outType schema.Type
	var terr error
	func() {
		defer func() {
			if r := recover(); r != nil {
				ans.Panic = fmt.Sprintf("Output(): %v", r)
			}
		}()
		outType, _, terr = fn.Output(types)
	}()
	if ans.Panic != "" {
		return ans
	}
	if terr != nil {
		ans.TypeErr = "Output(): " + terr.Error()
		return ans
	}
	if outType == nil {
		ans.TypeErr = "Output() returned no type"
		return ans
	}
	if verr := outType.Validate(res); verr != nil {
		ans.TypeErr = "the result does not conform to the result type derived for the argument types of this call: " + verr.Error()
		return ans
	}
	if _, uerr := outType.Unserialize(res); uerr != nil {
		ans.TypeErr = "the result does not unserialize with the result type derived for the argument types of this call: " + uerr.Error()
	}
	return ans
}

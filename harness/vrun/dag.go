//go:build verif

package vrun

import (
	"encoding/json"
	"fmt"
	"sort"
	"strings"

	"go.flow.arcalot.io/engine/internal/yaml"
	"go.flow.arcalot.io/engine/workflow"
	"go.flow.arcalot.io/pluginsdk/schema"
)

// DAGDump is a canonical dump of a prepared workflow's dependency graph.
type DAGDump struct {
	Nodes []string `json:"nodes"` // "id|kind"
	Edges []string `json:"edges"` // "from->to|type"
}

// DumpDAG lists nodes and typed edges in sorted order.
func DumpDAG(wf workflow.ExecutableWorkflow) *DAGDump {
	d := &DAGDump{}
	dag := wf.DAG()
	nodes := dag.ListNodes()
	for id, n := range nodes {
		d.Nodes = append(d.Nodes, id+"|"+string(n.Item().Kind))
		for from, t := range n.OutstandingDependencies() {
			d.Edges = append(d.Edges, fmt.Sprintf("%s->%s|%s", from, id, t))
		}
		for from, t := range n.ResolvedDependencies() {
			d.Edges = append(d.Edges, fmt.Sprintf("%s->%s|%s(resolved)", from, id, t))
		}
		inbound, err := n.ListInboundConnections()
		if err != nil {
			d.Edges = append(d.Edges, "ERR:"+err.Error())
		}
		out := n.OutstandingDependencies()
		for from := range inbound {
			if _, ok := out[from]; !ok {
				d.Edges = append(d.Edges, fmt.Sprintf("%s->%s|untracked", from, id))
			}
		}
	}
	sort.Strings(d.Nodes)
	sort.Strings(d.Edges)
	return d
}

// DumpSchemas renders output schemas and namespaces structurally. Randomly generated object ids
// (inferred_schema_<32 chars>) are dropped and references are expanded in place, so that two
// preparations of the same text give identical dumps.
func DumpSchemas(wf workflow.ExecutableWorkflow) (map[string]any, any) {
	outs := map[string]any{}
	for id, s := range wf.OutputSchema() {
		outs[id] = map[string]any{"error": s.Error(), "schema": structural(s.Schema(), s.Schema(), 10)}
	}
	ns := map[string]any{}
	for path, objs := range wf.Namespaces() {
		m := map[string]any{}
		for id, o := range objs {
			d := structural(o, nil, 6)
			key := id
			if isInferredID(id) {
				b, _ := json.Marshal(d)
				key = fmt.Sprintf("inferred#%x", fnv64(b))
			}
			m[key] = d
		}
		ns[path] = m
	}
	return outs, ns
}

func fnv64(b []byte) uint64 {
	h := uint64(0xcbf29ce484222325)
	for _, c := range b {
		h ^= uint64(c)
		h *= 0x100000001b3
	}
	return h
}

func isInferredID(id string) bool {
	return strings.HasPrefix(id, "inferred_schema_")
}

func structural(t schema.Type, scope schema.Scope, depth int) any {
	if t == nil {
		return nil
	}
	if depth <= 0 {
		return string(t.TypeID())
	}
	switch x := t.(type) {
	case schema.Scope:
		root, ok := x.Objects()[x.Root()]
		if !ok {
			return map[string]any{"type": "scope", "root": "missing"}
		}
		return map[string]any{"type": "scope", "root": structural(root, x, depth-1)}
	case schema.Object:
		props := map[string]any{}
		for name, p := range x.Properties() {
			props[name] = map[string]any{"required": p.Required(), "type": structural(p.Type(), scope, depth-1)}
		}
		out := map[string]any{"type": "object", "properties": props}
		if !isInferredID(x.ID()) {
			out["id"] = x.ID()
		}
		return out
	case schema.UntypedList:
		return map[string]any{"type": "list", "items": structural(x.Items(), scope, depth-1)}
	case schema.UntypedMap:
		return map[string]any{"type": "map", "keys": structural(x.Keys(), scope, depth-1), "values": structural(x.Values(), scope, depth-1)}
	case schema.Ref:
		if scope != nil && x.Namespace() == schema.SelfNamespace {
			if o, ok := scope.Objects()[x.ID()]; ok {
				return structural(o, scope, depth-1)
			}
		}
		id := x.ID()
		if isInferredID(id) {
			id = "inferred"
		}
		return map[string]any{"type": "ref", "id": id, "namespace": x.Namespace()}
	case schema.OneOf[string]:
		opts := map[string]any{}
		for k, o := range x.Types() {
			opts[k] = structural(o, scope, depth-1)
		}
		return map[string]any{"type": "oneof_string", "discriminator": x.DiscriminatorFieldName(), "options": opts}
	}
	return string(t.TypeID())
}

// DecodeYAMLInput decodes an input document the way engine.Workflow.Run does.
func DecodeYAMLInput(doc string) (any, error) {
	n, err := yaml.New().Parse([]byte(doc))
	if err != nil {
		return nil, err
	}
	return n.Raw(), nil
}

// DescribeType renders a schema type structurally (ids, property names, requiredness, type ids).
func DescribeType(t schema.Type, depth int) any {
	if t == nil {
		return nil
	}
	if depth <= 0 {
		return string(t.TypeID())
	}
	switch x := t.(type) {
	case schema.Scope:
		objs := map[string]any{}
		for id, o := range x.Objects() {
			objs[id] = DescribeType(o, depth-1)
		}
		return map[string]any{"type": "scope", "root": x.Root(), "objects": objs}
	case schema.Object:
		props := map[string]any{}
		for name, p := range x.Properties() {
			props[name] = map[string]any{"required": p.Required(), "type": DescribeType(p.Type(), depth-1)}
		}
		return map[string]any{"type": "object", "id": x.ID(), "properties": props}
	case schema.UntypedList:
		return map[string]any{"type": "list", "items": DescribeType(x.Items(), depth-1)}
	case schema.UntypedMap:
		return map[string]any{"type": "map", "keys": DescribeType(x.Keys(), depth-1), "values": DescribeType(x.Values(), depth-1)}
	case schema.Ref:
		return map[string]any{"type": "ref", "id": x.ID(), "namespace": x.Namespace()}
	case schema.OneOf[string]:
		opts := map[string]any{}
		for k, o := range x.Types() {
			opts[k] = DescribeType(o, depth-1)
		}
		return map[string]any{"type": "oneof_string", "discriminator": x.DiscriminatorFieldName(), "options": opts}
	}
	return string(t.TypeID())
}

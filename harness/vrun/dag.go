//go:build verif

package vrun

import (
	"fmt"
	"sort"

	"go.flow.arcalot.io/engine/internal/yaml"
	"go.flow.arcalot.io/engine/workflow"
	"go.flow.arcalot.io/pluginsdk/schema"
)

// DAGDump is a canonical dump of a prepared workflow's dependency graph.
type DAGDump struct {
	Nodes []string `json:"nodes"` // "id|kind"
	Edges []string `json:"edges"` // "from->to|type"
}

// DumpDAG lists nodes and typed edges in sorted order.
func DumpDAG(wf workflow.ExecutableWorkflow) *DAGDump {
	d := &DAGDump{}
	dag := wf.DAG()
	nodes := dag.ListNodes()
	for id, n := range nodes {
		d.Nodes = append(d.Nodes, id+"|"+string(n.Item().Kind))
		for from, t := range n.OutstandingDependencies() {
			d.Edges = append(d.Edges, fmt.Sprintf("%s->%s|%s", from, id, t))
		}
		for from, t := range n.ResolvedDependencies() {
			d.Edges = append(d.Edges, fmt.Sprintf("%s->%s|%s(resolved)", from, id, t))
		}
		inbound, err := n.ListInboundConnections()
		if err != nil {
			d.Edges = append(d.Edges, "ERR:"+err.Error())
		}
		out := n.OutstandingDependencies()
		for from := range inbound {
			if _, ok := out[from]; !ok {
				d.Edges = append(d.Edges, fmt.Sprintf("%s->%s|untracked", from, id))
			}
		}
	}
	sort.Strings(d.Nodes)
	sort.Strings(d.Edges)
	return d
}

// DumpSchemas serialises output schemas and namespaces.
func DumpSchemas(wf workflow.ExecutableWorkflow) (map[string]any, any) {
	outs := map[string]any{}
	for id, s := range wf.OutputSchema() {
		ser, err := schema.DescribeStepOutput().Serialize(s)
		if err != nil {
			outs[id] = "ERR:" + err.Error()
			continue
		}
		outs[id] = Normalize(ser)
	}
	ns := map[string]any{}
	for path, objs := range wf.Namespaces() {
		m := map[string]any{}
		for id, o := range objs {
			m[id] = DescribeType(o, 6)
		}
		ns[path] = m
	}
	return outs, ns
}

// DecodeYAMLInput decodes an input document the way engine.Workflow.Run does.
func DecodeYAMLInput(doc string) (any, error) {
	n, err := yaml.New().Parse([]byte(doc))
	if err != nil {
		return nil, err
	}
	return n.Raw(), nil
}

// DescribeType renders a schema type structurally (ids, property names, requiredness, type ids).
func DescribeType(t schema.Type, depth int) any {
	if t == nil {
		return nil
	}
	if depth <= 0 {
		return string(t.TypeID())
	}
	switch x := t.(type) {
	case schema.Scope:
		objs := map[string]any{}
		for id, o := range x.Objects() {
			objs[id] = DescribeType(o, depth-1)
		}
		return map[string]any{"type": "scope", "root": x.Root(), "objects": objs}
	case schema.Object:
		props := map[string]any{}
		for name, p := range x.Properties() {
			props[name] = map[string]any{"required": p.Required(), "type": DescribeType(p.Type(), depth-1)}
		}
		return map[string]any{"type": "object", "id": x.ID(), "properties": props}
	case schema.UntypedList:
		return map[string]any{"type": "list", "items": DescribeType(x.Items(), depth-1)}
	case schema.UntypedMap:
		return map[string]any{"type": "map", "keys": DescribeType(x.Keys(), depth-1), "values": DescribeType(x.Values(), depth-1)}
	case schema.Ref:
		return map[string]any{"type": "ref", "id": x.ID(), "namespace": x.Namespace()}
	case schema.OneOf[string]:
		opts := map[string]any{}
		for k, o := range x.Types() {
			opts[k] = DescribeType(o, depth-1)
		}
		return map[string]any{"type": "oneof_string", "discriminator": x.DiscriminatorFieldName(), "options": opts}
	}
	return string(t.TypeID())
}

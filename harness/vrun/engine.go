//go:build verif

package vrun

import (
	"context"
	"encoding/base64"
	"fmt"
	"os"
	"path/filepath"
	"time"

	log "go.arcalot.io/log/v2"
	"go.flow.arcalot.io/deployer"
	deployerregistry "go.flow.arcalot.io/deployer/registry"
	engine "go.flow.arcalot.io/engine"
	"go.flow.arcalot.io/engine/config"
	"go.flow.arcalot.io/engine/internal/verif/vplug"
	"go.flow.arcalot.io/engine/loadfile"
)

// EngineRequest drives the public engine API (engine.New / Parse / Run / RunWorkflow) on files.
type EngineRequest struct {
	// Files: relative path -> base64 content, written into a fresh scratch directory.
	Files map[string]string `json:"files"`
	// FileOrder is the insertion order of the required-files map / in-memory map (C20).
	WorkflowFile    string       `json:"workflow_file"`
	InputB64        string       `json:"input_b64"`
	Script          vplug.Script `json:"script"`
	Run             bool         `json:"run"`
	UseRunWorkflow  bool         `json:"use_run_workflow,omitempty"`
	RelativeContext bool         `json:"relative_context,omitempty"`
	Chdir           string       `json:"chdir,omitempty"` // "" | "scratch" | "elsewhere"
	InMemory        bool         `json:"in_memory,omitempty"`
	ExtraInMemory   []string     `json:"extra_in_memory,omitempty"` // additional files put into the cache up front
	WatchdogMs      int          `json:"watchdog_ms,omitempty"`
}

// EngineAnswer is the reply.
type EngineAnswer struct {
	ParseErr      string    `json:"parse_err,omitempty"`
	ParsePanic    string    `json:"parse_panic,omitempty"`
	Returned      *Returned `json:"returned,omitempty"`
	OutputIsError bool      `json:"output_is_error,omitempty"`
	RunPanic      string    `json:"run_panic,omitempty"`
	Hang          []string  `json:"hang,omitempty"`
	HangPhase     string    `json:"hang_phase,omitempty"`
	Deploys       int64     `json:"deploys"`
	Closes        int64     `json:"closes"`
	Leaks         []Leak    `json:"leaks,omitempty"`
	OutputErrFlag map[string]bool `json:"output_err_flags,omitempty"`
	WallMs        float64   `json:"wall_ms"`
	ProcessDeath  string    `json:"process_death,omitempty"`
	HarnessErr    string    `json:"harness_err,omitempty"`
}

var scratchCounter int

// RunEngine executes an EngineRequest.
func RunEngine(req *EngineRequest) *EngineAnswer {
	ans := &EngineAnswer{}
	t0 := time.Now()
	defer func() { ans.WallMs = float64(time.Since(t0).Microseconds()) / 1000 }()
	scratchCounter++
	base := os.Getenv("VERIF_SCRATCH")
	if base == "" {
		base = os.TempDir()
	}
	dir := filepath.Join(base, fmt.Sprintf("verif-eng-%d-%d", os.Getpid(), scratchCounter))
	elsewhere := filepath.Join(base, fmt.Sprintf("verif-eng-%d-elsewhere", os.Getpid()))
	if err := os.MkdirAll(dir, 0o755); err != nil {
		ans.HarnessErr = err.Error()
		return ans
	}
	_ = os.MkdirAll(elsewhere, 0o755)
	defer os.RemoveAll(dir)
	contents := map[string][]byte{}
	for name, b64 := range req.Files {
		data, err := base64.StdEncoding.DecodeString(b64)
		if err != nil {
			ans.HarnessErr = "bad base64 for " + name
			return ans
		}
		contents[name] = data
		p := filepath.Join(dir, name)
		_ = os.MkdirAll(filepath.Dir(p), 0o755)
		if err := os.WriteFile(p, data, 0o644); err != nil {
			ans.HarnessErr = err.Error()
			return ans
		}
	}
	input, _ := base64.StdEncoding.DecodeString(req.InputB64)

	oldwd, _ := os.Getwd()
	defer func() { _ = os.Chdir(oldwd) }()
	switch req.Chdir {
	case "scratch":
		_ = os.Chdir(dir)
	case "elsewhere":
		_ = os.Chdir(elsewhere)
	}
	ctxDir := dir
	if req.RelativeContext {
		cwd, _ := os.Getwd()
		if rel, err := filepath.Rel(cwd, dir); err == nil {
			ctxDir = rel
		}
	}

	w := vplug.NewWorld(req.Script)
	engine.DefaultDeployerRegistry = deployerregistry.New(deployer.Any(vplug.NewFactory(w)))
	cfg := &config.Config{
		Log:            log.Config{Level: log.LevelError, Destination: log.DestinationStdout, Stdout: discard{}},
		LocalDeployers: map[string]any{string(vplug.DeploymentType): map[string]any{"deployer_name": vplug.DeployerName}},
	}
	before := goroutineIDs()

	wfName := req.WorkflowFile
	key := wfName
	var fileCtx loadfile.FileCache
	if req.InMemory {
		mem := map[string][]byte{}
		if data, ok := contents[wfName]; ok {
			mem[wfName] = data
		}
		for _, n := range req.ExtraInMemory {
			if data, ok := contents[n]; ok {
				mem[n] = data
			}
		}
		fileCtx = loadfile.NewFileCache(ctxDir, mem)
	} else {
		required := map[string]string{}
		key = "workflow"
		name := wfName
		if name == "" {
			name = "workflow.yaml"
		}
		required[key] = name
		fc, err := loadfile.NewFileCacheUsingContext(ctxDir, required)
		if err != nil {
			ans.ParseErr = "context: " + err.Error()
			return ans
		}
		if err := fc.LoadContext(); err != nil {
			ans.ParseErr = "load context: " + err.Error()
			return ans
		}
		fileCtx = fc
	}

	type parseResult struct {
		wf       engine.Workflow
		err      error
		panicked string
		ret      *Returned
		isErr    bool
		runPanic string
	}
	wd := time.Duration(req.WatchdogMs) * time.Millisecond
	if wd <= 0 {
		wd = 15 * time.Second
	}
	done := make(chan parseResult, 1)
	phase := "parse"
	go func() {
		var r parseResult
		defer func() { done <- r }()
		func() {
			defer func() {
				if rec := recover(); rec != nil {
					r.panicked = fmt.Sprintf("%v\n%s", rec, shortStack())
				}
			}()
			flow, err := engine.New(cfg)
			if err != nil {
				r.err = fmt.Errorf("engine.New: %w", err)
				return
			}
			if req.UseRunWorkflow {
				phase = "run"
				w.SetPhase("prepare")
				id, data, isErr, err := flow.RunWorkflow(context.Background(), input, fileCtx, key)
				r.ret = &Returned{OutputID: id}
				r.isErr = isErr
				if err != nil {
					r.ret.Err = err.Error()
				} else {
					r.ret.Data = Normalize(data)
				}
				return
			}
			r.wf, r.err = flow.Parse(fileCtx, key)
		}()
		if r.panicked != "" || r.err != nil || r.wf == nil || !req.Run || req.UseRunWorkflow {
			return
		}
		phase = "run"
		w.SetPhase("run")
		func() {
			defer func() {
				if rec := recover(); rec != nil {
					r.runPanic = fmt.Sprintf("%v\n%s", rec, shortStack())
				}
			}()
			id, data, isErr, err := r.wf.Run(context.Background(), input)
			r.ret = &Returned{OutputID: id}
			r.isErr = isErr
			if err != nil {
				r.ret.Err = err.Error()
			} else {
				r.ret.Data = Normalize(data)
			}
		}()
	}()
	select {
	case r := <-done:
		if r.panicked != "" {
			ans.ParsePanic = r.panicked
		}
		if r.err != nil {
			ans.ParseErr = r.err.Error()
		}
		if r.wf != nil {
			ans.OutputErrFlag = map[string]bool{}
			for id, o := range r.wf.Outputs() {
				ans.OutputErrFlag[id] = o.Error()
			}
		}
		ans.Returned = r.ret
		ans.OutputIsError = r.isErr
		ans.RunPanic = r.runPanic
	case <-time.After(wd):
		d1 := dumpGoroutines()
		ans.Hang = []string{d1}
		ans.HangPhase = phase
		return ans
	}
	ans.Deploys = w.Deploys.Load()
	ans.Closes = w.Closes.Load()
	ans.Leaks = leaks(before, 2*time.Second)
	return ans
}

type discard struct{}

func (discard) Write(p []byte) (int, error) { return len(p), nil }

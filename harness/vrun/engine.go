//go:build verif

package vrun

import (
	"context"
	"encoding/base64"
	"fmt"
	"os"
	"path/filepath"
	"time"

	log "go.arcalot.io/log/v2"
	"go.flow.arcalot.io/deployer"
	deployerregistry "go.flow.arcalot.io/deployer/registry"
	engine "go.flow.arcalot.io/engine"
	"go.flow.arcalot.io/engine/config"
	"go.flow.arcalot.io/engine/internal/verif/vplug"
	"go.flow.arcalot.io/engine/loadfile"
)

// EngineRequest drives the public engine API (engine.New / Parse / Run / RunWorkflow) on files.
type EngineRequest struct {
	// Files: relative path -> base64 content, written into a fresh scratch directory.
	Files map[string]string `json:"files"`
	// FileOrder is the insertion order of the required-files map / in-memory map (C20).
	WorkflowFile    string       `json:"workflow_file"`
	InputB64        string       `json:"input_b64"`
	Script          vplug.Script `json:"script"`
	Run             bool         `json:"run"`
	UseRunWorkflow  bool         `json:"use_run_workflow,omitempty"`
	RelativeContext bool         `json:"relative_context,omitempty"`
	Chdir           string       `json:"chdir,omitempty"` // "" | "scratch" | "elsewhere"
	// PriorFiles: a different file tree (same names, other contents) that the same engine object
	// parses and runs first, from another directory; its result is discarded.
	PriorFiles    map[string]string `json:"prior_files,omitempty"`
	PriorInputB64 string            `json:"prior_input_b64,omitempty"`
	// ChdirAfterLoad changes the working directory after the file context was created and loaded
	// (before Parse): "" | "elsewhere"
	ChdirAfterLoad string   `json:"chdir_after_load,omitempty"`
	InMemory       bool     `json:"in_memory,omitempty"`
	ExtraInMemory  []string `json:"extra_in_memory,omitempty"` // additional files put into the cache up front
	WatchdogMs     int      `json:"watchdog_ms,omitempty"`
}

// EngineAnswer is the reply.
type EngineAnswer struct {
	ParseErr      string          `json:"parse_err,omitempty"`
	ParsePanic    string          `json:"parse_panic,omitempty"`
	Returned      *Returned       `json:"returned,omitempty"`
	OutputIsError bool            `json:"output_is_error,omitempty"`
	RunPanic      string          `json:"run_panic,omitempty"`
	Hang          []string        `json:"hang,omitempty"`
	HangPhase     string          `json:"hang_phase,omitempty"`
	Deploys       int64           `json:"deploys"`
	Closes        int64           `json:"closes"`
	Leaks         []Leak          `json:"leaks,omitempty"`
	OutputErrFlag map[string]bool `json:"output_err_flags,omitempty"`
	WallMs        float64         `json:"wall_ms"`
	ProcessDeath  string          `json:"process_death,omitempty"`
	HarnessErr    string          `json:"harness_err,omitempty"`
}

var scratchCounter int

// EngineSetup is the environment prepared for an EngineRequest.
type EngineSetup struct {
	World   *vplug.World
	Config  *config.Config
	FileCtx loadfile.FileCache
	Key     string
	Input   []byte
	Before  map[string]bool
	cleanup func()
}

// Cleanup removes the scratch directory and restores the working directory.
func (s *EngineSetup) Cleanup() { s.cleanup() }

// SetupEngine writes the files, chooses the context / working directory variant, installs the
// scripted deployer as engine.DefaultDeployerRegistry and loads the file cache.
// A non-empty parseErr means that loading the context already failed.
func SetupEngine(req *EngineRequest) (setup *EngineSetup, parseErr string, harnessErr string) {
	scratchCounter++
	base := os.Getenv("VERIF_SCRATCH")
	if base == "" {
		base = os.TempDir()
	}
	dir := filepath.Join(base, fmt.Sprintf("verif-eng-%d-%d", os.Getpid(), scratchCounter))
	elsewhere := filepath.Join(base, fmt.Sprintf("verif-eng-%d-elsewhere", os.Getpid()))
	if err := os.MkdirAll(dir, 0o755); err != nil {
		return nil, "", err.Error()
	}
	_ = os.MkdirAll(elsewhere, 0o755)
	oldwd, _ := os.Getwd()
	setup = &EngineSetup{cleanup: func() { _ = os.Chdir(oldwd); _ = os.RemoveAll(dir) }}
	contents := map[string][]byte{}
	for name, b64 := range req.Files {
		data, err := base64.StdEncoding.DecodeString(b64)
		if err != nil {
			setup.cleanup()
			return nil, "", "bad base64 for " + name
		}
		contents[name] = data
		p := filepath.Join(dir, name)
		_ = os.MkdirAll(filepath.Dir(p), 0o755)
		if err := os.WriteFile(p, data, 0o644); err != nil {
			setup.cleanup()
			return nil, "", err.Error()
		}
	}
	setup.Input, _ = base64.StdEncoding.DecodeString(req.InputB64)
	switch req.Chdir {
	case "scratch":
		_ = os.Chdir(dir)
	case "elsewhere":
		_ = os.Chdir(elsewhere)
	}
	ctxDir := dir
	if req.RelativeContext {
		cwd, _ := os.Getwd()
		if rel, err := filepath.Rel(cwd, dir); err == nil {
			ctxDir = rel
		}
	}
	w := vplug.NewWorld(req.Script)
	setup.World = w
	engine.DefaultDeployerRegistry = deployerregistry.New(deployer.Any(vplug.NewFactory(w)))
	setup.Config = &config.Config{
		Log:            log.Config{Level: log.LevelError, Destination: log.DestinationStdout, Stdout: discard{}},
		LocalDeployers: map[string]any{string(vplug.DeploymentType): map[string]any{"deployer_name": vplug.DeployerName}},
	}
	setup.Before = goroutineIDs()
	wfName := req.WorkflowFile
	setup.Key = wfName
	if req.InMemory {
		mem := map[string][]byte{}
		if data, ok := contents[wfName]; ok {
			mem[wfName] = data
		}
		for _, n := range req.ExtraInMemory {
			if data, ok := contents[n]; ok {
				mem[n] = data
			}
		}
		setup.FileCtx = loadfile.NewFileCache(ctxDir, mem)
		return setup, "", ""
	}
	setup.Key = "workflow"
	name := wfName
	if name == "" {
		name = "workflow.yaml"
	}
	fc, err := loadfile.NewFileCacheUsingContext(ctxDir, map[string]string{setup.Key: name})
	if err != nil {
		return setup, "context: " + err.Error(), ""
	}
	if err := fc.LoadContext(); err != nil {
		return setup, "load context: " + err.Error(), ""
	}
	setup.FileCtx = fc
	if req.ChdirAfterLoad == "elsewhere" {
		_ = os.Chdir(elsewhere)
	}
	return setup, "", ""
}

// RunEngine executes an EngineRequest.
func RunEngine(req *EngineRequest) *EngineAnswer {
	ans := &EngineAnswer{}
	t0 := time.Now()
	defer func() { ans.WallMs = float64(time.Since(t0).Microseconds()) / 1000 }()
	setup, parseErr, herr := SetupEngine(req)
	if herr != "" {
		ans.HarnessErr = herr
		return ans
	}
	defer setup.Cleanup()
	if parseErr != "" {
		ans.ParseErr = parseErr
		return ans
	}
	w, cfg, fileCtx, key, input, before := setup.World, setup.Config, setup.FileCtx, setup.Key, setup.Input, setup.Before

	type parseResult struct {
		wf       engine.Workflow
		err      error
		panicked string
		ret      *Returned
		isErr    bool
		runPanic string
	}
	wd := time.Duration(req.WatchdogMs) * time.Millisecond
	if wd <= 0 {
		wd = 15 * time.Second
	}
	done := make(chan parseResult, 1)
	phase := "parse"
	go func() {
		var r parseResult
		defer func() { done <- r }()
		func() {
			defer func() {
				if rec := recover(); rec != nil {
					r.panicked = fmt.Sprintf("%v\n%s", rec, shortStack())
				}
			}()
			flow, err := engine.New(cfg)
			if err != nil {
				r.err = fmt.Errorf("engine.New: %w", err)
				return
			}
			if len(req.PriorFiles) > 0 {
				runPrior(flow, req)
			}
			if req.UseRunWorkflow {
				phase = "run"
				w.SetPhase("prepare")
				id, data, isErr, err := flow.RunWorkflow(context.Background(), input, fileCtx, key)
				r.ret = &Returned{OutputID: id}
				r.isErr = isErr
				if err != nil {
					r.ret.Err = err.Error()
				} else {
					r.ret.Data = Normalize(data)
				}
				return
			}
			r.wf, r.err = flow.Parse(fileCtx, key)
		}()
		if r.panicked != "" || r.err != nil || r.wf == nil || !req.Run || req.UseRunWorkflow {
			return
		}
		phase = "run"
		w.SetPhase("run")
		func() {
			defer func() {
				if rec := recover(); rec != nil {
					r.runPanic = fmt.Sprintf("%v\n%s", rec, shortStack())
				}
			}()
			id, data, isErr, err := r.wf.Run(context.Background(), input)
			r.ret = &Returned{OutputID: id}
			r.isErr = isErr
			if err != nil {
				r.ret.Err = err.Error()
			} else {
				r.ret.Data = Normalize(data)
			}
		}()
	}()
	select {
	case r := <-done:
		if r.panicked != "" {
			ans.ParsePanic = r.panicked
		}
		if r.err != nil {
			ans.ParseErr = r.err.Error()
		}
		if r.wf != nil {
			ans.OutputErrFlag = map[string]bool{}
			for id, o := range r.wf.Outputs() {
				ans.OutputErrFlag[id] = o.Error()
			}
		}
		ans.Returned = r.ret
		ans.OutputIsError = r.isErr
		ans.RunPanic = r.runPanic
	case <-time.After(wd):
		d1 := dumpGoroutines()
		ans.Hang = []string{d1}
		ans.HangPhase = phase
		return ans
	}
	ans.Deploys = w.Deploys.Load()
	ans.Closes = w.Closes.Load()
	ans.Leaks = leaks(before, 2*time.Second)
	return ans
}

type discard struct{}

func (discard) Write(p []byte) (int, error) { return len(p), nil }

// runPrior lets the engine object parse and run another tree first (discarding the result).
func runPrior(flow engine.WorkflowEngine, req *EngineRequest) {
	defer func() { _ = recover() }()
	base := os.Getenv("VERIF_SCRATCH")
	if base == "" {
		base = os.TempDir()
	}
	scratchCounter++
	dir := filepath.Join(base, fmt.Sprintf("verif-eng-%d-%d-prior", os.Getpid(), scratchCounter))
	defer os.RemoveAll(dir)
	for name, b64 := range req.PriorFiles {
		data, err := base64.StdEncoding.DecodeString(b64)
		if err != nil {
			return
		}
		p := filepath.Join(dir, name)
		_ = os.MkdirAll(filepath.Dir(p), 0o755)
		if os.WriteFile(p, data, 0o644) != nil {
			return
		}
	}
	name := req.WorkflowFile
	if name == "" {
		name = "workflow.yaml"
	}
	fc, err := loadfile.NewFileCacheUsingContext(dir, map[string]string{"workflow": name})
	if err != nil || fc.LoadContext() != nil {
		return
	}
	input, _ := base64.StdEncoding.DecodeString(req.PriorInputB64)
	ctx, cancel := context.WithTimeout(context.Background(), 10*time.Second)
	defer cancel()
	_, _, _, _ = flow.RunWorkflow(ctx, input, fc, "workflow")
}

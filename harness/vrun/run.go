//go:build verif

// Package vrun executes one verification request against the real engine inside the
// worker process and reports everything the oracles need.
package vrun

import (
	"bytes"
	"context"
	"fmt"
	"math"
	"os"
	"reflect"
	"runtime"
	"runtime/pprof"
	"sort"
	"strings"
	"time"

	log "go.arcalot.io/log/v2"
	"go.flow.arcalot.io/deployer"
	deployerregistry "go.flow.arcalot.io/deployer/registry"
	engine "go.flow.arcalot.io/engine"
	"go.flow.arcalot.io/engine/config"
	"go.flow.arcalot.io/engine/internal/builtinfunctions"
	"go.flow.arcalot.io/engine/internal/step"
	"go.flow.arcalot.io/engine/internal/step/foreach"
	"go.flow.arcalot.io/engine/internal/step/plugin"
	stepregistry "go.flow.arcalot.io/engine/internal/step/registry"
	"go.flow.arcalot.io/engine/internal/verif/vplug"
	"go.flow.arcalot.io/engine/internal/verif/vsched"
	"go.flow.arcalot.io/engine/loadfile"
	"go.flow.arcalot.io/engine/workflow"
)

// Trigger is an environment action placed on a log event.
type Trigger struct {
	// On is the event name ("<kind>:<key>") or "" for "after AfterMs from run start".
	On      string `json:"on,omitempty"`
	AfterMs int    `json:"after_ms,omitempty"`
	// Action: "cancel" cancels the caller's context.
	Action string `json:"action"`
}

// Request is one run-type request.
type Request struct {
	Kind       string            `json:"kind"` // "run" | "prepare"
	Main       string            `json:"main"`
	Files      map[string]string `json:"files,omitempty"`
	Input      any               `json:"input,omitempty"`
	InputYAML  *string           `json:"input_yaml,omitempty"`
	Script     vplug.Script      `json:"script"`
	Plan       vsched.Plan       `json:"plan,omitempty"`
	Triggers   []Trigger         `json:"triggers,omitempty"`
	WatchdogMs int               `json:"watchdog_ms,omitempty"`
	WantDAG    bool              `json:"want_dag,omitempty"`
	WantSchema bool              `json:"want_schema,omitempty"`
	// PriorInputs are executed one after the other on the prepared workflow before the observed
	// run (their results are discarded; their events carry the phase "warmup").
	PriorInputs []any `json:"prior_inputs,omitempty"`
	// Validate asks for in-worker schema validation of observed values (C08).
	Validate bool `json:"validate,omitempty"`
	// StartFail names steps of kind "vstartfail" whose Start must fail (C05).
	Debug bool `json:"debug,omitempty"`
}

// Returned is what Execute returned.
type Returned struct {
	OutputID string `json:"output_id"`
	Data     any    `json:"data,omitempty"`
	Err      string `json:"err,omitempty"`
	ErrType  string `json:"err_type,omitempty"`
	raw      any
}

// Leak describes a goroutine still alive after the run.
type Leak struct {
	Header string   `json:"header"`
	Frames []string `json:"frames"`
}

// Answer is the worker's reply.
type Answer struct {
	PrepareErr   string         `json:"prepare_err,omitempty"`
	PreparePanic string         `json:"prepare_panic,omitempty"`
	Returned     *Returned      `json:"returned,omitempty"`
	Panic        string         `json:"panic,omitempty"`
	Hang         []string       `json:"hang,omitempty"`
	HangBlocked  bool           `json:"hang_blocked,omitempty"`
	WallMs       float64        `json:"wall_ms"`
	TCancelUs    int64          `json:"t_cancel_us,omitempty"`
	TReturnUs    int64          `json:"t_return_us,omitempty"`
	TRunStartUs  int64          `json:"t_run_start_us,omitempty"`
	Log          []vplug.Event  `json:"log,omitempty"`
	DeploysProbe int64          `json:"deploys_probe"`
	ClosesProbe  int64          `json:"closes_probe"`
	DeploysRun   int64          `json:"deploys_run"`
	ClosesRun    int64          `json:"closes_run"`
	LiveExec     int64          `json:"live_exec"`
	Leaks        []Leak         `json:"leaks,omitempty"`
	ConcHigh     map[string]int `json:"conc_high,omitempty"`
	SiteHits     map[string]int `json:"site_hits,omitempty"`
	DAG          *DAGDump       `json:"dag,omitempty"`
	OutputSchema map[string]any `json:"output_schema,omitempty"`
	Namespaces   any            `json:"namespaces,omitempty"`
	Invalid      []string       `json:"invalid,omitempty"` // schema validation failures (C08)
	Validated    int            `json:"validated,omitempty"`
	EngineLog    string         `json:"engine_log,omitempty"`
	// ProcessDeath is filled in by the parent when the worker vanished.
	ProcessDeath string `json:"process_death,omitempty"`
}

// Env bundles what is built per request.
type Env struct {
	World    *vplug.World
	Registry step.Registry
	Logger   log.Logger
	LogBuf   log.BufferWriter
	Config   *config.Config
}

// NewEnv builds the scripted world and the step registry (plugin + foreach providers).
func NewEnv(script vplug.Script, debug bool) (*Env, error) {
	w := vplug.NewWorld(script)
	var logger log.Logger
	var buf log.BufferWriter
	if debug {
		buf = log.NewBufferWriter()
		logger = log.NewLogger(log.LevelDebug, buf)
	} else {
		logger = log.NewLogger(log.LevelError, log.NewNOOPLogger())
	}
	// step outputs named success / error are "logged outputs" (a configuration feature): the code
	// path that writes them is exercised, the harness logger drops the line
	cfg := &config.Config{LoggedOutputConfigs: map[string]*config.StepOutputLogConfig{
		"success": {LogLevel: log.LevelDebug}, "error": {LogLevel: log.LevelDebug}}}
	depReg := deployerregistry.New(deployer.Any(vplug.NewFactory(w)))
	pluginProvider, err := plugin.New(logger, depReg, map[string]any{
		string(vplug.DeploymentType): map[string]any{"deployer_name": vplug.DeployerName},
	})
	if err != nil {
		return nil, err
	}
	env := &Env{World: w, Logger: logger, LogBuf: buf, Config: cfg}
	loopProvider, err := foreach.New(logger,
		func() (workflow.YAMLConverter, error) { return workflow.NewYAMLConverter(env.Registry), nil },
		func(l log.Logger) (workflow.Executor, error) {
			return workflow.NewExecutor(l, cfg, env.Registry, builtinfunctions.GetFunctions())
		},
	)
	if err != nil {
		return nil, err
	}
	reg, err := stepregistry.New(pluginProvider, loopProvider, newStartFailProvider())
	if err != nil {
		return nil, err
	}
	env.Registry = reg
	return env, nil
}

// Prepare parses and prepares the main text.
func (e *Env) Prepare(main string, files map[string]string) (wf workflow.ExecutableWorkflow, err error, panicked string) {
	defer func() {
		if r := recover(); r != nil {
			panicked = fmt.Sprintf("%v\n%s", r, shortStack())
		}
	}()
	ctxFiles := map[string][]byte{}
	for k, v := range files {
		ctxFiles[k] = []byte(v)
	}
	parsed, err := workflow.NewYAMLConverter(e.Registry).FromYAML([]byte(main))
	if err != nil {
		return nil, err, ""
	}
	executor, err := workflow.NewExecutor(e.Logger, e.Config, e.Registry, builtinfunctions.GetFunctions())
	if err != nil {
		return nil, err, ""
	}
	wf, err = executor.Prepare(parsed, ctxFiles)
	return wf, err, ""
}

// SharedPreparer parses the text once and returns a function that prepares that parsed workflow
// with one executor, as often as it is called.
func (e *Env) SharedPreparer(main string, files map[string]string) func() (workflow.ExecutableWorkflow, error, string) {
	ctxFiles := map[string][]byte{}
	for k, v := range files {
		ctxFiles[k] = []byte(v)
	}
	parsed, perr := workflow.NewYAMLConverter(e.Registry).FromYAML([]byte(main))
	var executor workflow.Executor
	if perr == nil {
		executor, perr = workflow.NewExecutor(e.Logger, e.Config, e.Registry, builtinfunctions.GetFunctions())
	}
	return func() (wf workflow.ExecutableWorkflow, err error, panicked string) {
		defer func() {
			if r := recover(); r != nil {
				panicked = fmt.Sprintf("%v\n%s", r, shortStack())
			}
		}()
		if perr != nil {
			return nil, perr, ""
		}
		wf, err = executor.Prepare(parsed, ctxFiles)
		return wf, err, ""
	}
}

func shortStack() string {
	buf := make([]byte, 16384)
	n := runtime.Stack(buf, false)
	return string(buf[:n])
}

// Run handles a "run" or "prepare" request.
func Run(req *Request) *Answer {
	ans := &Answer{}
	t0 := time.Now()
	defer func() { ans.WallMs = float64(time.Since(t0).Microseconds()) / 1000 }()
	env, err := NewEnv(req.Script, req.Debug)
	if err != nil {
		ans.PrepareErr = "harness: " + err.Error()
		return ans
	}
	w := env.World
	plan := req.Plan
	if plan == nil {
		plan = vsched.Plan{}
	}
	vsched.Install(plan)
	defer func() {
		ans.SiteHits = vsched.Hits()
		vsched.Install(nil)
		if env.LogBuf != nil {
			s := env.LogBuf.String()
			if len(s) > 200000 {
				s = s[len(s)-200000:]
			}
			ans.EngineLog = s
		}
	}()
	before := goroutineIDs()

	wf, perr, ppanic := env.Prepare(req.Main, req.Files)
	ans.DeploysProbe = w.Deploys.Load()
	ans.ClosesProbe = w.Closes.Load()
	if ppanic != "" {
		ans.PreparePanic = ppanic
		ans.Log = w.Events()
		ans.Leaks = leaks(before, 2*time.Second)
		return ans
	}
	if perr != nil {
		ans.PrepareErr = perr.Error()
		ans.Log = w.Events()
		ans.Leaks = leaks(before, 2*time.Second)
		return ans
	}
	if req.WantDAG {
		ans.DAG = DumpDAG(wf)
	}
	if req.WantSchema {
		ans.OutputSchema, ans.Namespaces = DumpSchemas(wf)
	}
	if req.Kind == "prepare" {
		ans.Log = w.Events()
		ans.Leaks = leaks(before, 2*time.Second)
		return ans
	}

	if len(req.PriorInputs) > 0 {
		w.SetPhase("warmup")
		for _, in := range req.PriorInputs {
			func() {
				defer func() { _ = recover() }()
				ctx, cancel := context.WithTimeout(context.Background(), 10*time.Second)
				defer cancel()
				_, _, _ = wf.Execute(ctx, in)
			}()
		}
		ans.DeploysProbe = w.Deploys.Load()
		ans.ClosesProbe = w.Closes.Load()
	}
	var input any = req.Input
	var viaEngine engine.Workflow
	if req.InputYAML != nil {
		// the input arrives as a document: it goes through the engine's own entry point
		// (engine.New / Parse / Workflow.Run), which decodes it, not through a decoder of the harness
		ew, err := engineWorkflowFor(env, req)
		if err != nil {
			ans.Returned = &Returned{Err: "harness: engine-level preparation failed: " + err.Error()}
			return ans
		}
		viaEngine = ew
		ans.DeploysProbe = w.Deploys.Load()
		ans.ClosesProbe = w.Closes.Load()
	}
	w.SetPhase("run")
	ret, panicked, hang, blocked := execute(env, wf, input, req, ans, viaEngine)
	ans.TReturnUs = w.NowUs()
	ans.DeploysRun = w.Deploys.Load() - ans.DeploysProbe
	ans.ClosesRun = w.Closes.Load() - ans.ClosesProbe
	ans.LiveExec = w.LiveExec.Load()
	ans.Returned = ret
	ans.Panic = panicked
	ans.Hang = hang
	ans.HangBlocked = blocked
	if hang == nil {
		ans.Leaks = leaks(before, 2*time.Second)
		if len(ans.Leaks) > 0 {
			// re-read counters: something was still finishing
			ans.LiveExec = w.LiveExec.Load()
		}
	}
	ans.Log = w.Events()
	ans.ConcHigh = w.ConcurrencyHigh()
	if req.Validate && ret != nil && ret.Err == "" && hang == nil {
		validateRun(wf, ret, ret.raw, ans)
	}
	return ans
}

// engineWorkflowFor prepares the request's texts once more through engine.New / Parse (scripted
// deployer of the same world) so that the run can start from the input document's bytes.
func engineWorkflowFor(env *Env, req *Request) (engine.Workflow, error) {
	engine.DefaultDeployerRegistry = deployerregistry.New(deployer.Any(vplug.NewFactory(env.World)))
	cfg := &config.Config{
		Log:                 log.Config{Level: log.LevelError, Destination: log.DestinationStdout, Stdout: discard{}},
		LocalDeployers:      map[string]any{string(vplug.DeploymentType): map[string]any{"deployer_name": vplug.DeployerName}},
		LoggedOutputConfigs: env.Config.LoggedOutputConfigs,
	}
	flow, err := engine.New(cfg)
	if err != nil {
		return nil, err
	}
	files := map[string][]byte{"workflow.yaml": []byte(req.Main)}
	for name, text := range req.Files {
		files[name] = []byte(text)
	}
	return flow.Parse(loadfile.NewFileCache(os.TempDir(), files), "workflow.yaml")
}

func execute(env *Env, wf workflow.ExecutableWorkflow, input any, req *Request, ans *Answer, viaEngine engine.Workflow) (ret *Returned, panicked string, hang []string, blocked bool) {
	w := env.World
	ctx, cancel := context.WithCancel(context.Background())
	defer cancel()
	doCancel := func() {
		if ans.TCancelUs == 0 {
			ans.TCancelUs = w.NowUs()
		}
		cancel()
	}
	for _, tr := range req.Triggers {
		tr := tr
		if tr.Action != "cancel" {
			continue
		}
		if tr.On != "" {
			w.OnEvent(tr.On, func() {
				if tr.AfterMs > 0 {
					go func() {
						time.Sleep(time.Duration(tr.AfterMs) * time.Millisecond)
						doCancel()
					}()
				} else {
					doCancel()
				}
			})
		}
	}
	type result struct {
		ret      *Returned
		panicked string
	}
	done := make(chan result, 1)
	ans.TRunStartUs = w.NowUs()
	for _, tr := range req.Triggers {
		tr := tr
		if tr.Action == "cancel" && tr.On == "" {
			go func() {
				t := time.NewTimer(time.Duration(tr.AfterMs) * time.Millisecond)
				defer t.Stop()
				select {
				case <-t.C:
					doCancel()
				case <-ctx.Done():
				}
			}()
		}
	}
	go func() {
		var r result
		// Observation point: the top-level run starts shutting its steps down. Only in binaries
		// built with schedule points (tools/instr); sub-workflow runs are on other goroutines.
		gid := goid()
		vsched.SetHooks(map[string]func(){
			"workflow/workflow.go:loopState.terminateAllSteps#0:entry": func() {
				if goid() == gid {
					w.Log("shutdown-begin", "", nil)
				}
			},
		})
		defer func() {
			if rec := recover(); rec != nil {
				r.panicked = fmt.Sprintf("%v\n%s", rec, shortStack())
				r.ret = nil
			}
			done <- r
		}()
		var id string
		var data any
		var err error
		if viaEngine != nil {
			id, data, _, err = viaEngine.Run(ctx, []byte(*req.InputYAML))
		} else {
			id, data, err = wf.Execute(ctx, input)
		}
		r.ret = &Returned{OutputID: id}
		if err != nil {
			r.ret.Err = err.Error()
			r.ret.ErrType = fmt.Sprintf("%T", err)
		} else {
			r.ret.Data = Normalize(data)
			r.ret.raw = data
		}
	}()
	wd := time.Duration(req.WatchdogMs) * time.Millisecond
	if wd <= 0 {
		wd = 20 * time.Second
	}
	select {
	case r := <-done:
		return r.ret, r.panicked, nil, false
	case <-time.After(wd):
		d1 := dumpGoroutines()
		time.Sleep(time.Second)
		select {
		case r := <-done:
			// Finished while we were looking: slow, not hung. Report as inconclusive hang without block evidence.
			_ = r
			return nil, "", []string{"late-finish", d1}, false
		default:
		}
		d2 := dumpGoroutines()
		return nil, "", []string{d1, d2}, blockedEvidence(d1, d2)
	}
}

func dumpGoroutines() string {
	var buf bytes.Buffer
	_ = pprof.Lookup("goroutine").WriteTo(&buf, 2)
	return buf.String()
}

// blockedEvidence reports whether both dumps show the same set of engine goroutines in a blocked
// state (chan send/receive, select, semacquire, sync wait) with identical top engine frames.
func blockedEvidence(d1, d2 string) bool {
	a := engineBlockedSet(d1)
	b := engineBlockedSet(d2)
	if len(a) == 0 {
		return false
	}
	if len(a) != len(b) {
		return false
	}
	for k := range a {
		if !b[k] {
			return false
		}
	}
	return true
}

func engineBlockedSet(dump string) map[string]bool {
	out := map[string]bool{}
	for _, g := range strings.Split(dump, "\n\n") {
		lines := strings.Split(strings.TrimSpace(g), "\n")
		if len(lines) < 2 || !strings.HasPrefix(lines[0], "goroutine ") {
			continue
		}
		hdr := lines[0]
		if strings.Contains(hdr, "running") || strings.Contains(hdr, "runnable") || strings.Contains(hdr, "sleep") {
			// A runnable or sleeping engine goroutine means it may still make progress.
			if hasEngineFrame(lines) && !strings.Contains(g, "vrun.execute") && !strings.Contains(g, "vrun.dumpGoroutines") {
				out["PROGRESS:"+firstEngineFrame(lines)] = true
			}
			continue
		}
		if !hasEngineFrame(lines) {
			continue
		}
		id := strings.Fields(hdr)[1]
		out[id+":"+firstEngineFrame(lines)] = true
	}
	for k := range out {
		if strings.HasPrefix(k, "PROGRESS:") {
			return nil
		}
	}
	return out
}

func isEngineFrame(l string) bool {
	return strings.HasPrefix(l, "go.flow.arcalot.io/engine/") && !strings.Contains(l, "/internal/verif/")
}

func hasEngineFrame(lines []string) bool {
	for _, l := range lines {
		if isEngineFrame(l) {
			return true
		}
	}
	return false
}

func firstEngineFrame(lines []string) string {
	for _, l := range lines {
		if isEngineFrame(l) {
			if i := strings.IndexByte(l, '('); i > 0 {
				return l[:i]
			}
			return l
		}
	}
	return ""
}

func goroutineIDs() map[string]bool {
	ids := map[string]bool{}
	for _, g := range strings.Split(dumpGoroutines(), "\n\n") {
		g = strings.TrimSpace(g)
		if strings.HasPrefix(g, "goroutine ") {
			f := strings.Fields(g)
			if len(f) > 1 {
				ids[f[1]] = true
			}
		}
	}
	return ids
}

// leaks polls until no new goroutine with engine / pluginsdk / vplug frames remains or the
// timeout expires, then returns those that remain.
func leaks(before map[string]bool, timeout time.Duration) []Leak {
	deadline := time.Now().Add(timeout)
	delay := time.Millisecond
	for {
		l := currentLeaks(before)
		if len(l) == 0 || time.Now().After(deadline) {
			return l
		}
		time.Sleep(delay)
		if delay < 50*time.Millisecond {
			delay *= 2
		}
	}
}

func currentLeaks(before map[string]bool) []Leak {
	var out []Leak
	for _, g := range strings.Split(dumpGoroutines(), "\n\n") {
		g = strings.TrimSpace(g)
		if !strings.HasPrefix(g, "goroutine ") {
			continue
		}
		lines := strings.Split(g, "\n")
		f := strings.Fields(lines[0])
		if len(f) < 2 || before[f[1]] {
			continue
		}
		relevant := false
		var frames []string
		for _, l := range lines[1:] {
			if strings.HasPrefix(l, "\t") {
				continue
			}
			if strings.Contains(l, "vrun.currentLeaks") || strings.Contains(l, "vrun.leaks") || strings.Contains(l, "vrun.dumpGoroutines") {
				relevant = false
				frames = nil
				break
			}
			if strings.HasPrefix(l, "go.flow.arcalot.io/") || strings.HasPrefix(l, "created by go.flow.arcalot.io/") {
				relevant = true
			}
			if len(frames) < 12 {
				if i := strings.IndexByte(l, '('); i > 0 && !strings.HasPrefix(l, "created by") {
					l = l[:i]
				}
				frames = append(frames, l)
			}
		}
		if relevant {
			out = append(out, Leak{Header: lines[0], Frames: frames})
		}
	}
	return out
}

// Normalize converts engine data into JSON-encodable values: maps get string keys, integer
// types become int64, non-finite floats become strings, structs become maps with "$struct".
func Normalize(v any) any {
	if v == nil {
		return nil
	}
	switch x := v.(type) {
	case string, bool:
		return x
	case int64:
		return x
	case float64:
		if math.IsNaN(x) || math.IsInf(x, 0) {
			return fmt.Sprintf("$float:%v", x)
		}
		return x
	}
	rv := reflect.ValueOf(v)
	switch rv.Kind() {
	case reflect.Int, reflect.Int8, reflect.Int16, reflect.Int32, reflect.Int64:
		return rv.Int()
	case reflect.Uint, reflect.Uint8, reflect.Uint16, reflect.Uint32, reflect.Uint64:
		u := rv.Uint()
		if u > math.MaxInt64 {
			return fmt.Sprintf("$uint:%d", u)
		}
		return int64(u)
	case reflect.Float32, reflect.Float64:
		return Normalize(rv.Float())
	case reflect.String:
		return rv.String()
	case reflect.Bool:
		return rv.Bool()
	case reflect.Map:
		out := map[string]any{}
		for _, k := range rv.MapKeys() {
			out[fmt.Sprint(k.Interface())] = Normalize(rv.MapIndex(k).Interface())
		}
		return out
	case reflect.Slice, reflect.Array:
		out := make([]any, rv.Len())
		for i := 0; i < rv.Len(); i++ {
			out[i] = Normalize(rv.Index(i).Interface())
		}
		return out
	case reflect.Struct:
		out := map[string]any{"$struct": rv.Type().String()}
		for i := 0; i < rv.NumField(); i++ {
			f := rv.Type().Field(i)
			if f.IsExported() {
				out[f.Name] = Normalize(rv.Field(i).Interface())
			}
		}
		return out
	case reflect.Ptr, reflect.Interface:
		if rv.IsNil() {
			return nil
		}
		return Normalize(rv.Elem().Interface())
	}
	return fmt.Sprintf("$unknown:%T", v)
}

func sortedStrings(m map[string]bool) []string {
	out := make([]string, 0, len(m))
	for k := range m {
		out = append(out, k)
	}
	sort.Strings(out)
	return out
}

func goid() string {
	var buf [64]byte
	n := runtime.Stack(buf[:], false)
	f := strings.Fields(string(buf[:n]))
	if len(f) > 1 {
		return f[1]
	}
	return ""
}

//go:build verif

package vrun

import (
	"fmt"
	"sort"
	"sync"
	"time"

	log "go.arcalot.io/log/v2"
	"go.flow.arcalot.io/deployer"
	deployerregistry "go.flow.arcalot.io/deployer/registry"
	"go.flow.arcalot.io/engine/internal/step"
	"go.flow.arcalot.io/engine/internal/step/plugin"
	"go.flow.arcalot.io/engine/internal/verif/vplug"
	"go.flow.arcalot.io/engine/internal/verif/vsched"
)

// Action is one environment action of a C12 history.
type Action struct {
	// Kind: provide-deploy | provide-enabled | provide-starting | provide-stop | close | force-close |
	// release-deploy | release-plugin | sleep
	Kind string `json:"kind"`
	// Arg: valid | invalid | nil (provide-*), true | false (enabled / stop), milliseconds (sleep)
	Arg string `json:"arg,omitempty"`
}

// C12Request drives one running plugin step through a history of environment actions.
type C12Request struct {
	Op      string                `json:"op"` // op | op_nc
	Deploy  vplug.DeployBehaviour `json:"deploy"`
	Plugin  vplug.Behaviour       `json:"plugin"`
	Rounds  [][]Action            `json:"rounds"` // actions of a round start concurrently
	Quiesce []bool                `json:"quiesce"`
	Plan    vsched.Plan           `json:"plan,omitempty"`
}

// HandlerEvent is one recorded notification.
type HandlerEvent struct {
	Kind      string `json:"kind"` // stage-change | complete | stage-failure
	Stage     string `json:"stage"`
	PrevStage string `json:"prev_stage,omitempty"`
	OutputID  string `json:"output_id,omitempty"`
	BeginUs   int64  `json:"begin_us"`
	EndUs     int64  `json:"end_us"`
}

// C12Answer is the reply.
type C12Answer struct {
	Violations   []string       `json:"violations,omitempty"`
	Events       []HandlerEvent `json:"events,omitempty"`
	ActionLog    []string       `json:"action_log,omitempty"`
	FinalState   string         `json:"final_state,omitempty"`
	Closed       bool           `json:"closed"`
	Hang         string         `json:"hang,omitempty"`
	Leaks        []Leak         `json:"leaks,omitempty"`
	Deploys      int64          `json:"deploys"`
	Closes       int64          `json:"closes"`
	HarnessErr   string         `json:"harness_err,omitempty"`
	ProcessDeath string         `json:"process_death,omitempty"`
}

type recorder struct {
	mu     sync.Mutex
	w      *vplug.World
	events []HandlerEvent
}

func (r *recorder) add(e HandlerEvent) int {
	r.mu.Lock()
	defer r.mu.Unlock()
	r.events = append(r.events, e)
	return len(r.events) - 1
}

func (r *recorder) end(i int) {
	r.mu.Lock()
	r.events[i].EndUs = r.w.NowUs()
	r.mu.Unlock()
}

func (r *recorder) snapshot() []HandlerEvent {
	r.mu.Lock()
	defer r.mu.Unlock()
	return append([]HandlerEvent(nil), r.events...)
}

func deref(s *string) string {
	if s == nil {
		return ""
	}
	return *s
}

func (r *recorder) OnStageChange(_ step.RunningStep, prev *string, outID *string, _ *any, stage string, _ bool, _ *sync.WaitGroup) {
	i := r.add(HandlerEvent{Kind: "stage-change", Stage: stage, PrevStage: deref(prev), OutputID: deref(outID), BeginUs: r.w.NowUs()})
	r.end(i)
}

func (r *recorder) OnStepComplete(_ step.RunningStep, prev string, outID *string, _ *any, _ *sync.WaitGroup) {
	i := r.add(HandlerEvent{Kind: "complete", PrevStage: prev, OutputID: deref(outID), BeginUs: r.w.NowUs()})
	r.end(i)
}

func (r *recorder) OnStepStageFailure(_ step.RunningStep, stage string, _ *sync.WaitGroup, _ error) {
	i := r.add(HandlerEvent{Kind: "stage-failure", Stage: stage, BeginUs: r.w.NowUs()})
	r.end(i)
}

// RunC12 executes a C12 history and checks the life-story invariants.
func RunC12(req *C12Request) *C12Answer {
	ans := &C12Answer{}
	w := vplug.NewWorld(vplug.Script{
		Steps:   map[string]vplug.Behaviour{"k": req.Plugin},
		Deploys: map[string]vplug.DeployBehaviour{"vp://k": req.Deploy},
	})
	plan := req.Plan
	if plan == nil {
		plan = vsched.Plan{}
	}
	vsched.Install(plan)
	defer vsched.Install(nil)
	logger := log.NewLogger(log.LevelError, log.NewNOOPLogger())
	depReg := deployerregistry.New(deployer.Any(vplug.NewFactory(w)))
	provider, err := plugin.New(logger, depReg, map[string]any{string(vplug.DeploymentType): map[string]any{"deployer_name": vplug.DeployerName}})
	if err != nil {
		ans.HarnessErr = err.Error()
		return ans
	}
	before := goroutineIDs()
	runnable, err := provider.LoadSchema(map[string]any{"plugin": map[string]any{"src": "vp://k", "deployment_type": string(vplug.DeploymentType)}}, nil)
	if err != nil {
		ans.HarnessErr = "LoadSchema: " + err.Error()
		return ans
	}
	lifecycle, err := runnable.Lifecycle(map[string]any{"step": req.Op})
	if err != nil {
		ans.HarnessErr = "Lifecycle: " + err.Error()
		return ans
	}
	declared := map[string]map[string]bool{}
	for _, st := range lifecycle.Stages {
		declared[st.ID] = map[string]bool{}
		for o := range st.Outputs {
			declared[st.ID][o] = true
		}
	}
	w.SetPhase("run")
	rec := &recorder{w: w}
	running, err := runnable.Start(map[string]any{"step": req.Op}, "k", rec)
	if err != nil {
		ans.HarnessErr = "Start: " + err.Error()
		return ans
	}
	violate := func(format string, a ...any) {
		if len(ans.Violations) < 10 {
			ans.Violations = append(ans.Violations, fmt.Sprintf(format, a...))
		}
	}
	provided := map[string]bool{}
	var closeReturnedUs int64 = -1
	var mu sync.Mutex

	doAction := func(a Action) string {
		t0 := time.Now()
		res := ""
		bounded := func(name string, limit time.Duration, f func() error) {
			done := make(chan error, 1)
			go func() { done <- f() }()
			select {
			case err := <-done:
				if err != nil {
					res = "error: " + err.Error()
				} else {
					res = "ok"
				}
			case <-time.After(limit):
				res = "TIMEOUT"
				violate("%s did not return within %v", name, limit)
			}
		}
		switch a.Kind {
		case "provide-deploy":
			in := map[string]any{"deploy": nil}
			if a.Arg == "valid" {
				in["deploy"] = map[string]any{"deployer_name": vplug.DeployerName, "tag": "t"}
			} else if a.Arg == "invalid" {
				in["deploy"] = map[string]any{"deployer_name": "nosuchdeployer"}
			}
			mu.Lock()
			second := provided["deploy"]
			mu.Unlock()
			bounded("ProvideStageInput(deploy)", time.Second, func() error { return running.ProvideStageInput("deploy", in) })
			if res == "ok" {
				mu.Lock()
				provided["deploy"] = true
				mu.Unlock()
				if second {
					violate("deploy input was accepted a second time")
				}
			}
		case "provide-enabled":
			mu.Lock()
			second := provided["enabling"]
			mu.Unlock()
			bounded("ProvideStageInput(enabling)", time.Second, func() error {
				return running.ProvideStageInput("enabling", map[string]any{"enabled": a.Arg != "false"})
			})
			if res == "ok" {
				mu.Lock()
				provided["enabling"] = true
				mu.Unlock()
				if second {
					violate("enabling input was accepted a second time")
				}
			}
		case "provide-starting":
			in := map[string]any{"input": map[string]any{"key": "k", "a": int64(3)}, "closure_wait_timeout": int64(80)}
			if a.Arg == "invalid" {
				in["input"] = map[string]any{"nokey": 1}
			} else if a.Arg == "nil" {
				in["input"] = nil
			}
			mu.Lock()
			second := provided["starting"]
			mu.Unlock()
			bounded("ProvideStageInput(starting)", time.Second, func() error { return running.ProvideStageInput("starting", in) })
			if res == "ok" {
				mu.Lock()
				provided["starting"] = true
				mu.Unlock()
				if second {
					violate("starting input was accepted a second time")
				}
				if a.Arg != "valid" {
					violate("invalid starting input (%s) was accepted", a.Arg)
				}
			}
		case "provide-stop":
			var v any = a.Arg == "true"
			bounded("ProvideStageInput(cancelled)", time.Second, func() error {
				return running.ProvideStageInput("cancelled", map[string]any{"stop_if": v})
			})
		case "close", "force-close":
			bounded(a.Kind, 8*time.Second, func() error {
				if a.Kind == "close" {
					return running.Close()
				}
				return running.ForceClose()
			})
			if res != "TIMEOUT" {
				mu.Lock()
				if closeReturnedUs < 0 {
					closeReturnedUs = w.NowUs()
				}
				mu.Unlock()
			}
		case "release-deploy":
			w.Log("release", "deploy", nil)
			res = "ok"
		case "release-plugin":
			w.Log("release", "plugin", nil)
			res = "ok"
		case "sleep":
			var ms int
			fmt.Sscan(a.Arg, &ms)
			time.Sleep(time.Duration(ms) * time.Millisecond)
			res = "ok"
		}
		return fmt.Sprintf("%s(%s) -> %s [%dus]", a.Kind, a.Arg, res, time.Since(t0).Microseconds())
	}

	checkInvariants := func(where string) {
		evs := rec.snapshot()
		finished := map[string]int{}
		impossible := map[string]bool{}
		completes := 0
		for _, e := range evs {
			switch e.Kind {
			case "stage-change", "complete":
				if e.PrevStage != "" {
					finished[e.PrevStage]++
					if e.OutputID != "" && !declared[e.PrevStage][e.OutputID] {
						violate("%s: stage %q reported output %q which the lifecycle does not declare", where, e.PrevStage, e.OutputID)
					}
					if _, ok := declared[e.PrevStage]; !ok {
						violate("%s: notification for undeclared stage %q", where, e.PrevStage)
					}
				}
				if e.Kind == "complete" {
					completes++
				}
			case "stage-failure":
				impossible[e.Stage] = true
			}
		}
		for st, n := range finished {
			if n > 1 {
				violate("%s: stage %q was reported finished %d times", where, st, n)
			}
			if impossible[st] {
				violate("%s: stage %q was reported both finished and impossible", where, st)
			}
		}
		if completes > 1 {
			violate("%s: %d completion notifications", where, completes)
		}
	}

	for ri, round := range req.Rounds {
		var wg sync.WaitGroup
		results := make([]string, len(round))
		for i, a := range round {
			i, a := i, a
			wg.Add(1)
			go func() {
				defer wg.Done()
				results[i] = doAction(a)
			}()
		}
		wg.Wait()
		ans.ActionLog = append(ans.ActionLog, results...)
		if ri < len(req.Quiesce) && req.Quiesce[ri] {
			time.Sleep(25 * time.Millisecond)
		}
		checkInvariants(fmt.Sprintf("after round %d", ri))
	}

	// End of history: release everything, close, and check the final invariants.
	w.Log("release", "deploy", nil)
	w.Log("release", "plugin", nil)
	mu.Lock()
	alreadyClosed := closeReturnedUs >= 0
	mu.Unlock()
	if !alreadyClosed {
		// let a step that can finish on its own do so, then close
		time.Sleep(30 * time.Millisecond)
		ans.ActionLog = append(ans.ActionLog, doAction(Action{Kind: "close"}))
	}
	nBefore := len(rec.snapshot())
	ans.ActionLog = append(ans.ActionLog, doAction(Action{Kind: "close"}), doAction(Action{Kind: "force-close"}))
	maxDelay := 0
	for _, sp := range plan {
		if sp.DelayMs > maxDelay {
			maxDelay = sp.DelayMs
		}
	}
	time.Sleep(time.Duration(50+3*maxDelay) * time.Millisecond) // settle
	evs := rec.snapshot()
	ans.Events = evs
	checkInvariants("at the end")
	if len(evs) != nBefore {
		violate("closing again produced %d new notifications", len(evs)-nBefore)
	}
	completes := 0
	for _, e := range evs {
		if e.Kind == "complete" {
			completes++
		}
		mu.Lock()
		cr := closeReturnedUs
		mu.Unlock()
		if cr >= 0 && e.BeginUs > cr {
			violate("notification %s(%s%s) began %d us after the first Close had returned", e.Kind, e.Stage, e.PrevStage, e.BeginUs-cr)
		}
	}
	if completes != 1 {
		violate("%d completion notifications after the step was closed (want exactly 1)", completes)
	}
	ans.FinalState = string(running.State())
	if ans.FinalState != string(step.RunningStepStateFinished) {
		violate("state after close is %q, not finished", ans.FinalState)
	}
	ans.Closed = true
	ans.Deploys, ans.Closes = w.Deploys.Load()-1, w.Closes.Load()-1 // minus the schema probe
	if ans.Deploys != ans.Closes {
		violate("%d run deployments but %d connection closes after the step was closed", ans.Deploys, ans.Closes)
	}
	ans.Leaks = leaks(before, 2*time.Second)
	if len(ans.Leaks) > 0 {
		violate("%d goroutines still alive after the step was closed, e.g. %s %v", len(ans.Leaks), ans.Leaks[0].Header, ans.Leaks[0].Frames)
	}
	sort.Strings(ans.Violations)
	return ans
}

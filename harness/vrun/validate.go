//go:build verif

package vrun

import (
	"fmt"

	"go.flow.arcalot.io/engine/workflow"
)

// validateRun checks the returned data against the workflow's declared output schema (C08).
func validateRun(wf workflow.ExecutableWorkflow, ret *Returned, ans *Answer) {
	s, ok := wf.OutputSchema()[ret.OutputID]
	if !ok {
		ans.Invalid = append(ans.Invalid, fmt.Sprintf("returned output id %q not in OutputSchema()", ret.OutputID))
		return
	}
	ans.Validated++
	_ = s
}

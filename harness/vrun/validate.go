//go:build verif

package vrun

import (
	"fmt"

	"go.flow.arcalot.io/engine/workflow"
)

// validateRun checks the returned data against the workflow's declared output schema (C08),
// independently of the engine's own consistency check.
func validateRun(wf workflow.ExecutableWorkflow, ret *Returned, rawData any, ans *Answer) {
	s, ok := wf.OutputSchema()[ret.OutputID]
	if !ok {
		ans.Invalid = append(ans.Invalid, fmt.Sprintf("returned output id %q not in OutputSchema()", ret.OutputID))
		return
	}
	ans.Validated++
	if _, err := s.Unserialize(rawData); err != nil {
		ans.Invalid = append(ans.Invalid, fmt.Sprintf("returned data of output %q does not unserialize with its declared schema: %v", ret.OutputID, err))
	}
}

//go:build verif

package vrun

import (
	"fmt"

	"go.arcalot.io/dgraph"
	"go.flow.arcalot.io/engine/internal/step"
	"go.flow.arcalot.io/pluginsdk/schema"
)

// startFailProvider is a minimal step kind ("vstartfail") written against the documented
// step.Provider interface whose Start fails when asked to. It is used by C05 to exercise the
// "launch of a later step fails after earlier steps were started" exit path, which the real
// providers cannot produce once Prepare succeeded.
type startFailProvider struct{}

func newStartFailProvider() step.Provider { return &startFailProvider{} }

func (p *startFailProvider) Kind() string { return "vstartfail" }

var sfStage = step.LifecycleStage{
	ID: "only", WaitingName: "w", RunningName: "r", FinishedName: "f",
	InputFields: map[string]struct{}{},
	NextStages:  map[string]dgraph.DependencyType{},
}

func (p *startFailProvider) Lifecycle() step.Lifecycle[step.LifecycleStage] {
	return step.Lifecycle[step.LifecycleStage]{InitialStage: "only", Stages: []step.LifecycleStage{sfStage}}
}

func (p *startFailProvider) ProviderSchema() map[string]*schema.PropertySchema {
	return map[string]*schema.PropertySchema{
		"fail": schema.NewPropertySchema(schema.NewBoolSchema(), nil, false, nil, nil, nil, nil, nil),
	}
}

func (p *startFailProvider) RunProperties() map[string]struct{} { return map[string]struct{}{} }

func (p *startFailProvider) LoadSchema(inputs map[string]any, _ map[string][]byte) (step.RunnableStep, error) {
	fail, _ := inputs["fail"].(bool)
	return &sfRunnable{fail: fail}, nil
}

type sfRunnable struct{ fail bool }

func (r *sfRunnable) Lifecycle(_ map[string]any) (step.Lifecycle[step.LifecycleStageWithSchema], error) {
	return step.Lifecycle[step.LifecycleStageWithSchema]{
		InitialStage: "only",
		Stages: []step.LifecycleStageWithSchema{{
			LifecycleStage: sfStage,
			Outputs: map[string]*schema.StepOutputSchema{
				"done": schema.NewStepOutputSchema(schema.NewScopeSchema(schema.NewObjectSchema("SFDone", map[string]*schema.PropertySchema{})), nil, false),
			},
		}},
	}, nil
}

func (r *sfRunnable) RunSchema() map[string]*schema.PropertySchema {
	return map[string]*schema.PropertySchema{}
}

func (r *sfRunnable) Start(_ map[string]any, runID string, _ step.StageChangeHandler) (step.RunningStep, error) {
	if r.fail {
		return nil, fmt.Errorf("scripted start failure of %s", runID)
	}
	return &sfRunning{}, nil
}

type sfRunning struct{}

func (s *sfRunning) ProvideStageInput(string, map[string]any) error { return nil }
func (s *sfRunning) CurrentStage() string                           { return "only" }
func (s *sfRunning) State() step.RunningStepState                   { return step.RunningStepStateFinished }
func (s *sfRunning) Close() error                                   { return nil }
func (s *sfRunning) ForceClose() error                              { return nil }
